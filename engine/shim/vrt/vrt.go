// Package vrt is the controlled runtime used by the livesim2 model-checking
// harnesses: a cooperative scheduler that serialises real goroutines, records
// every scheduling / environment choice, provides virtual time, modelled
// channels, vector clocks and a happens-before race detector, and a
// deviation-bounded depth-first explorer over choice sequences.
//
// With no scheduler attached (Cur() == nil) every shim falls through to the
// real implementation, so rewritten code behaves as the original.
package vrt

import (
	"fmt"
	"runtime"
	"sort"
	"strings"
	"sync/atomic"
	"time"
)

// ---------------------------------------------------------------------------
// vector clocks

type VC []uint32

func (v VC) clone() VC { c := make(VC, len(v)); copy(c, v); return c }

func (v *VC) join(o VC) {
	for len(*v) < len(o) {
		*v = append(*v, 0)
	}
	for i, x := range o {
		if x > (*v)[i] {
			(*v)[i] = x
		}
	}
}

func (v VC) get(i int) uint32 {
	if i < len(v) {
		return v[i]
	}
	return 0
}

// Sync is the happens-before clock carried by a synchronisation object.
type Sync struct{ vc VC }

// ---------------------------------------------------------------------------
// threads and operations

type abortT struct{}

type thread struct {
	id     int
	name   string
	wake   chan struct{}
	pend   *Op
	done   bool
	daemon bool
	vc     VC
	joinVC Sync
	steps  int
}

// Op describes the next visible operation of a thread.
type Op struct {
	Kind    string
	Enabled func() bool // nil = always
	Low     bool        // enabled only when nothing else is (quiescence wait)
	Until   int64       // >0: enabled when virtual now >= Until
	NowOnly bool        // with Low: runs before virtual time is advanced
	sel     *selOp
}

// Point is one recorded decision of an execution.
type Point struct {
	N          int  // number of alternatives
	Chosen     int  // alternative taken
	Preemptive bool // alternatives >0 switch away from a still-enabled running thread
	Env        bool // environment choice (vrt.Choose); alternatives >0 cost one deviation
	Free       bool // alternatives cost nothing
	Label      string
}

// Failure is a violation observed in one execution.
type Failure struct {
	Sig2    string `json:"variant,omitempty"` // which exploration variant found it (e.g. "reverse")
	Sig     string `json:"sig"`
	Msg     string `json:"msg"`
	Choices []int  `json:"choices"`
	Stack   string `json:"stack,omitempty"`
}

// Sched is one controlled execution.
type Sched struct {
	threads             []*thread
	cur                 *thread
	prefix              []int
	points              []Point
	choices             []int
	now                 int64 // virtual ns since epoch
	timers              []*Timer
	aborting            bool
	endCh               chan struct{}
	steps               int
	horizon             int
	loops               int
	loopHorizon         int
	capHit              string
	fails               []Failure
	obs                 []string
	chans               map[uintptr]*chanModel
	shadow              map[accKey]*shadowCell
	raceOn              bool
	ctxSync             Sync
	replayErr           string
	allowBlockedDaemons bool
	trace               []string
	traceOn             bool
	noUnlockPoints      bool
	endWithMain         bool
	reverse             bool
	User                any
}

var active atomic.Pointer[Sched]

// Cur returns the active scheduler or nil.
func Cur() *Sched { return active.Load() }

// Active reports whether a controlled execution is running.
func Active() bool { return active.Load() != nil }

func (s *Sched) me() *thread { return s.cur }

// Tid returns the id of the running thread.
func (s *Sched) Tid() int { return s.cur.id }

// Fail records a violation for the current execution.
func (s *Sched) Fail(sig, msg string) {
	s.fails = append(s.fails, Failure{Sig: sig, Msg: msg})
}

// Observe records a piece of the observable outcome of this execution.
func (s *Sched) Observe(o string) { s.obs = append(s.obs, o) }

// Tracef adds a line to the execution trace (only kept when tracing).
func (s *Sched) Tracef(f string, a ...any) {
	if s.traceOn {
		s.trace = append(s.trace, fmt.Sprintf("t%d: ", s.cur.id)+fmt.Sprintf(f, a...))
	}
}

// Now returns virtual time in ns.
func (s *Sched) Now() int64 { return s.now }

// SetNow sets virtual time (harness only, before threads depend on it).
func (s *Sched) SetNow(ns int64) { s.now = ns }

func (s *Sched) nextChoice(n int, preemptive, env, free bool, label string) int {
	idx := 0
	pos := len(s.choices)
	if pos < len(s.prefix) {
		idx = s.prefix[pos]
		if idx < 0 || idx >= n {
			s.replayErr = fmt.Sprintf("replay divergence at point %d (%s): choice %d of %d", pos, label, idx, n)
			idx = 0
		}
	}
	s.loops = 0
	s.choices = append(s.choices, idx)
	s.points = append(s.points, Point{N: n, Chosen: idx, Preemptive: preemptive, Env: env, Free: free, Label: label})
	return idx
}

// Choose is an environment choice with n alternatives; 0 is the default answer,
// every other answer costs one deviation.
func Choose(n int, label string) int {
	s := Cur()
	if s == nil || n <= 1 {
		return 0
	}
	return s.nextChoice(n, false, true, false, label)
}

// ChooseFree is an environment choice whose alternatives are all explored
// regardless of the deviation bound.
func ChooseFree(n int, label string) int {
	s := Cur()
	if s == nil || n <= 1 {
		return 0
	}
	return s.nextChoice(n, false, false, true, label)
}

func (t *thread) enabled(s *Sched) bool {
	o := t.pend
	if o == nil || t.done {
		return false
	}
	if o.Low {
		return false
	}
	if o.Until > 0 && s.now < o.Until {
		return false
	}
	if o.Enabled != nil {
		return o.Enabled()
	}
	return true
}

// Yield announces the next visible operation of the running thread and lets the
// scheduler decide who runs next. It returns when this thread is chosen, at
// which time the operation is enabled.
func (s *Sched) Yield(o *Op) {
	if s.aborting {
		panic(abortT{})
	}
	t := s.cur
	t.pend = o
	s.steps++
	s.loops = 0
	if s.horizon > 0 && s.steps > s.horizon {
		s.capHit = "horizon"
		s.finish()
		<-t.wake
		panic(abortT{})
	}
	s.dispatch(t)
}

// Loop is called at the head of every `for` iteration of rewritten code. It is not a
// scheduling point; it only counts steps so that a loop that makes no visible progress
// runs into the execution's horizon (reported as a cap / livelock, never silently).
func Loop() {
	s := Cur()
	if s == nil {
		return
	}
	s.loops++
	if s.loopHorizon > 0 && s.loops > s.loopHorizon && !s.aborting {
		s.capHit = "loop-horizon"
		s.fails = append(s.fails, Failure{Sig: "livelock", Msg: fmt.Sprintf("more than %d loop iterations without a visible operation", s.loopHorizon)})
		t := s.cur
		s.finish()
		<-t.wake
		panic(abortT{})
	}
}

var always = &Op{Kind: "point"}

// Point is a scheduling point before an always-enabled visible operation.
func (s *Sched) Point(kind string) {
	s.Yield(&Op{Kind: kind})
}

// dispatch picks the next thread. self is the thread giving up control (its pend
// is set, or it is done).
func (s *Sched) dispatch(self *thread) {
	for {
		var en []*thread
		curEnabled := false
		if !self.done && self.enabled(s) {
			en = append(en, self)
			curEnabled = true
		}
		if s.reverse {
			for i := len(s.threads) - 1; i >= 0; i-- {
				if t := s.threads[i]; t != self && t.enabled(s) {
					en = append(en, t)
				}
			}
		} else {
			for _, t := range s.threads {
				if t != self && t.enabled(s) {
					en = append(en, t)
				}
			}
		}
		if len(en) == 0 {
			// settle waiters: nothing can run at the current virtual time
			for _, t := range s.threads {
				if !t.done && t.pend != nil && t.pend.Low && t.pend.NowOnly {
					en = append(en, t)
					break
				}
			}
		}
		if len(en) == 0 {
			if s.advanceTime() {
				continue
			}
			// quiescence waiters
			for _, t := range s.threads {
				if !t.done && t.pend != nil && t.pend.Low {
					en = append(en, t)
					break
				}
			}
			if len(en) == 0 {
				// terminal: all done, or deadlock
				s.terminal()
				if self.done {
					return
				}
				<-self.wake
				panic(abortT{})
			}
		}
		idx := 0
		if len(en) > 1 {
			idx = s.nextChoice(len(en), curEnabled, false, !curEnabled, "sched")
		}
		next := en[idx]
		next.pend = nil
		s.cur = next
		if next != self {
			next.wake <- struct{}{}
			if self.done {
				return
			}
			<-self.wake
			if s.aborting {
				panic(abortT{})
			}
		}
		return
	}
}

func (s *Sched) terminal() {
	var blocked []string
	for _, t := range s.threads {
		if !t.done {
			if t.daemon && s.allowBlockedDaemons {
				continue
			}
			k := "?"
			if t.pend != nil {
				k = t.pend.Kind
			}
			blocked = append(blocked, fmt.Sprintf("%s(t%d) at %s", t.name, t.id, k))
		}
	}
	if len(blocked) > 0 {
		s.fails = append(s.fails, Failure{Sig: "deadlock", Msg: "no thread enabled: " + strings.Join(blocked, "; ")})
	}
	s.finish()
}

// finish ends the execution: the controller is signalled and unwinds whatever is
// still blocked.
func (s *Sched) finish() {
	if !s.aborting {
		s.aborting = true
		close(s.endCh)
	}
}

// advanceTime moves virtual time to the earliest pending sleep / timer. Returns
// false if nothing is pending.
func (s *Sched) advanceTime() bool {
	var next int64 = -1
	for _, t := range s.threads {
		if !t.done && t.pend != nil && t.pend.Until > s.now {
			if next < 0 || t.pend.Until < next {
				next = t.pend.Until
			}
		}
	}
	for _, tm := range s.timers {
		if tm.active && tm.when > s.now {
			if next < 0 || tm.when < next {
				next = tm.when
			}
		}
	}
	if next < 0 {
		return false
	}
	s.now = next
	s.fireTimers()
	return true
}

// Go starts fn as a new controlled thread (daemon = spawned by code under test).
func Go(fn func()) {
	s := Cur()
	if s == nil {
		go fn()
		return
	}
	s.spawn("go", true, fn)
}

// Spawn starts a harness thread; the returned handle can be joined.
func (s *Sched) Spawn(name string, fn func()) *Handle {
	t := s.spawn(name, false, fn)
	return &Handle{t: t}
}

type Handle struct{ t *thread }

// Join blocks until the thread has finished.
func (s *Sched) Join(hs ...*Handle) {
	for _, h := range hs {
		t := h.t
		s.Yield(&Op{Kind: "join " + t.name, Enabled: func() bool { return t.done }})
		s.cur.vc.join(t.joinVC.vc)
	}
}

// IsAbort reports whether a recovered panic value is the runtime's own unwinding sentinel
// (harness-side recover wrappers must re-panic it).
func IsAbort(p any) bool { _, ok := p.(abortT); return ok }

// UnlockPoint is the scheduling point before a lock release; it can be switched off per run
// (RunOpts.NoUnlockPoints) because happens-before race detection does not depend on it.
func (s *Sched) UnlockPoint(kind string) {
	if s.noUnlockPoints {
		if s.aborting {
			panic(abortT{})
		}
		return
	}
	s.Point(kind)
}

// DaemonCount returns the number of threads started by code under test (vrt.Go).
func (s *Sched) DaemonCount() int {
	n := 0
	for _, t := range s.threads {
		if t.daemon {
			n++
		}
	}
	return n
}

// Quiesce blocks until no other thread can make progress (and no timer is pending).
func (s *Sched) Quiesce() {
	s.Yield(&Op{Kind: "quiesce", Low: true})
	// everything that ran before quiescence happens-before what follows
	for _, t := range s.threads {
		s.cur.vc.join(t.vc)
	}
}

// Threads describes every live thread and the operation it waits at (diagnostics).
func (s *Sched) Threads() []string {
	var out []string
	for _, t := range s.threads {
		if t.done {
			continue
		}
		k := "running"
		if t.pend != nil {
			k = t.pend.Kind
			if t.pend.sel != nil {
				k += fmt.Sprintf("(%d cases)", len(t.pend.sel.cases))
			}
		}
		out = append(out, fmt.Sprintf("%s(t%d)@%s", t.name, t.id, k))
	}
	return out
}

// Settle blocks until no other thread can make progress at the current virtual time;
// pending timers and sleeps are left pending.
func (s *Sched) Settle() {
	s.Yield(&Op{Kind: "settle", Low: true, NowOnly: true})
	for _, t := range s.threads {
		s.cur.vc.join(t.vc)
	}
}

func (s *Sched) spawn(name string, daemon bool, fn func()) *thread {
	s.Point("spawn")
	return s.spawnNoPoint(name, daemon, fn)
}

func (s *Sched) spawnNoPoint(name string, daemon bool, fn func()) *thread {
	parent := s.cur
	t := &thread{id: len(s.threads), name: name, wake: make(chan struct{}), daemon: daemon}
	if parent != nil {
		t.vc = parent.vc.clone()
		parent.tick()
	}
	for len(t.vc) <= t.id {
		t.vc = append(t.vc, 0)
	}
	t.vc[t.id] = 1
	t.pend = &Op{Kind: "start"}
	s.threads = append(s.threads, t)
	go s.threadMain(t, fn)
	return t
}

func (t *thread) tick() {
	for len(t.vc) <= t.id {
		t.vc = append(t.vc, 0)
	}
	t.vc[t.id]++
}

func (s *Sched) threadMain(t *thread, fn func()) {
	<-t.wake
	defer func() {
		r := recover()
		wasAborting := s.aborting
		userPanic := false
		if r != nil {
			if _, ok := r.(abortT); !ok {
				buf := make([]byte, 16384)
				buf = buf[:runtime.Stack(buf, false)]
				if !wasAborting {
					s.fails = append(s.fails, Failure{Sig: "panic:" + panicSite(string(buf)), Msg: fmt.Sprint(r), Stack: string(buf)})
					userPanic = true
				}
			}
		}
		t.joinVC.vc = t.vc.clone()
		t.done = true
		t.pend = nil
		if wasAborting {
			t.wake <- struct{}{} // ack to the controller, which is unwinding us
			return
		}
		if userPanic {
			s.finish() // we are the running thread and already marked done
			return
		}
		if t.id == 0 && s.endWithMain {
			s.finish() // the harness body is over: whatever still runs is unwound
			return
		}
		s.dispatch(t)
	}()
	if s.aborting {
		panic(abortT{})
	}
	fn()
}

// panicSite extracts "function file:line" of the first frame inside the repo
// that is not part of the shim packages.
func panicSite(stack string) string {
	lines := strings.Split(stack, "\n")
	seenPanic := false
	for i := 0; i+1 < len(lines); i++ {
		l := lines[i]
		if strings.HasPrefix(l, "panic(") {
			seenPanic = true
			continue
		}
		if !seenPanic {
			continue
		}
		if strings.Contains(l, "livesim2/") && !strings.Contains(l, "/vshim/") && !strings.HasPrefix(l, "\t") {
			fn := l
			if k := strings.LastIndex(fn, "("); k > 0 {
				fn = fn[:k]
			}
			if k := strings.LastIndex(fn, "/"); k >= 0 {
				fn = fn[k+1:]
			}
			return fn
		}
	}
	return "unknown"
}

// PanicSite is exported for harnesses that recover panics themselves.
func PanicSite(stack string) string { return panicSite(stack) }

// ---------------------------------------------------------------------------
// running one execution

type Result struct {
	Points    []Point
	Choices   []int
	Fails     []Failure
	Obs       []string
	CapHit    string
	Steps     int
	Threads   int
	Trace     []string
	ReplayErr string
	Hung      bool
}

type RunOpts struct {
	Horizon             int
	Race                bool
	AllowBlockedDaemons bool
	Trace               bool
	StartNS             int64
	WatchdogS           int
	NoUnlockPoints      bool
	LoopHorizon         int  // max `for` iterations between two visible operations (0 = 5e6)
	EndWithMain         bool // the execution ends when the harness body returns (threads of the code under test may run for ever)
	ReverseOrder        bool // canonical order of the other threads is descending ids: background goroutines started early run last by default
}

// Run executes body once under the scheduler, replaying prefix and taking choice
// 0 afterwards.
func Run(prefix []int, o RunOpts, body func(s *Sched)) *Result {
	s := &Sched{prefix: prefix, endCh: make(chan struct{}), horizon: o.Horizon, raceOn: o.Race,
		allowBlockedDaemons: o.AllowBlockedDaemons, traceOn: o.Trace, now: o.StartNS, noUnlockPoints: o.NoUnlockPoints,
		chans: map[uintptr]*chanModel{}, shadow: map[accKey]*shadowCell{}, endWithMain: o.EndWithMain, reverse: o.ReverseOrder}
	if s.horizon == 0 {
		s.horizon = 200000
	}
	s.loopHorizon = o.LoopHorizon
	if s.loopHorizon == 0 {
		s.loopHorizon = 5_000_000
	}
	if !active.CompareAndSwap(nil, s) {
		panic("vrt: nested Run")
	}
	defer active.Store(nil)
	main := &thread{id: 0, name: "main", wake: make(chan struct{}), vc: VC{1}}
	main.pend = &Op{Kind: "start"}
	s.threads = append(s.threads, main)
	s.cur = main
	go s.threadMain(main, func() { body(s) })
	main.pend = nil
	main.wake <- struct{}{}
	wd := o.WatchdogS
	if wd <= 0 {
		wd = 30
	}
	select {
	case <-s.endCh:
	case <-time.After(time.Duration(wd) * time.Second):
		// a thread is spinning without reaching a scheduling point: abandon this execution
		// (the spinner cannot be stopped; it no longer sees an active scheduler)
		return &Result{Points: s.points, Choices: s.choices, Fails: []Failure{{Sig: "hang", Msg: fmt.Sprintf("execution did not reach a scheduling point or finish within %d s", wd)}},
			Obs: s.obs, Hung: true, Steps: s.steps, Threads: len(s.threads)}
	}
	// unwind everything still blocked
	for i := 0; i < len(s.threads); i++ { // threads may not grow while aborting
		t := s.threads[i]
		if !t.done {
			t.wake <- struct{}{}
			<-t.wake
		}
	}
	return &Result{Points: s.points, Choices: s.choices, Fails: s.fails, Obs: s.obs, CapHit: s.capHit,
		Steps: s.steps, Threads: len(s.threads), Trace: s.trace, ReplayErr: s.replayErr}
}

// ---------------------------------------------------------------------------
// explorer

type ExploreOpts struct {
	RunOpts
	Bound        int // max deviations (preemptions + non-default environment answers)
	MaxExec      int // cap on executions (0 = none); hitting it is reported, not hidden
	Shard        int
	NShards      int
	FirstOnly    bool  // stop at the first failure of each signature (always true in effect)
	DeadlineUnix int64 // wall-clock second after which the search stops and reports a cap (0 = none)
	FreeCost     int   // cost of a non-default choice among threads after the running one blocked (0 = free, CHESS-style)
}

type Stats struct {
	Executions      int            `json:"executions"`
	Points          int            `json:"points"`
	MaxPoints       int            `json:"max_points"`
	Bound           int            `json:"bound"`
	Outcomes        map[string]int `json:"-"`
	DistinctOutcome int            `json:"distinct_outcomes"`
	Failures        []Failure      `json:"failures"`
	CapsHit         []string       `json:"caps_hit"`
	Exhaustive      bool           `json:"exhaustive"`
	MaxThreads      int            `json:"max_threads"`
	SampleSchedules [][]int        `json:"sample_schedules"`
	Hung            bool           `json:"hung"`
}

type Explorer struct {
	timeCapped bool
	o          ExploreOpts
	body       func(s *Sched)
	st         *Stats
	seen       map[string]bool
	capped     bool
	stop       bool
	subtree    int
}

// Explore runs the deviation-bounded DFS.
func Explore(o ExploreOpts, body func(s *Sched)) *Stats {
	e := &Explorer{o: o, body: body, st: &Stats{Bound: o.Bound, Outcomes: map[string]int{}}, seen: map[string]bool{}}
	if e.o.NShards <= 0 {
		e.o.NShards = 1
	}
	e.explore(nil, 0)
	e.st.DistinctOutcome = len(e.st.Outcomes)
	e.st.Exhaustive = !e.capped
	sort.Strings(e.st.CapsHit)
	return e.st
}

func (e *Explorer) explore(prefix []int, depth int) {
	if e.stop {
		return
	}
	if e.o.DeadlineUnix > 0 && time.Now().Unix() > e.o.DeadlineUnix {
		if !e.capped || !e.timeCapped {
			e.capped, e.timeCapped = true, true
			e.st.CapsHit = append(e.st.CapsHit, "time_budget")
		}
		return
	}
	if e.o.MaxExec > 0 && e.st.Executions >= e.o.MaxExec {
		if !e.capped {
			e.capped = true
			e.st.CapsHit = append(e.st.CapsHit, fmt.Sprintf("max_exec=%d", e.o.MaxExec))
		}
		return
	}
	x := Run(prefix, e.o.RunOpts, e.body)
	if depth == 0 && e.o.Shard != 0 {
		// the root execution is counted and checked by shard 0 only
		x.Fails, x.CapHit = nil, ""
	} else {
		e.st.Executions++
		e.st.Outcomes[strings.Join(x.Obs, "|")]++
	}
	e.st.Points += len(x.Points)
	if len(x.Points) > e.st.MaxPoints {
		e.st.MaxPoints = len(x.Points)
	}
	if x.Threads > e.st.MaxThreads {
		e.st.MaxThreads = x.Threads
	}
	if x.Hung {
		e.stop = true
		e.capped = true
		e.st.Hung = true
		f := x.Fails[0]
		f.Choices = append([]int{}, x.Choices...)
		e.st.Failures = append(e.st.Failures, f)
		e.st.CapsHit = append(e.st.CapsHit, "hang")
		return
	}
	if x.ReplayErr == "" && !x.Hung && len(x.Points) < len(prefix) {
		x.ReplayErr = fmt.Sprintf("replay divergence: the execution ended after %d choice points, the replayed prefix has %d", len(x.Points), len(prefix))
	}
	if x.ReplayErr != "" {
		e.st.Failures = append(e.st.Failures, Failure{Sig: "engine:replay-divergence", Msg: x.ReplayErr, Choices: x.Choices})
		e.capped = true
		return
	}
	if x.CapHit != "" {
		c := "cap:" + x.CapHit
		if !e.seen[c] {
			e.seen[c] = true
			e.st.CapsHit = append(e.st.CapsHit, x.CapHit)
		}
		e.capped = true
	}
	if len(e.st.SampleSchedules) < 3 {
		e.st.SampleSchedules = append(e.st.SampleSchedules, append([]int{}, x.Choices...))
	}
	for _, f := range x.Fails {
		if !e.seen[f.Sig] {
			e.seen[f.Sig] = true
			f.Choices = append([]int{}, x.Choices...)
			e.st.Failures = append(e.st.Failures, f)
		}
	}
	cost := 0
	for i := 0; i < len(prefix); i++ {
		cost += pointCost(x.Points[i], x.Points[i].Chosen, e.o.FreeCost)
	}
	for i := len(prefix); i < len(x.Points); i++ {
		p := x.Points[i]
		for alt := 1; alt < p.N; alt++ {
			if cost+pointCost(p, alt, e.o.FreeCost) > e.o.Bound {
				continue
			}
			// sharding on the first branching below the root
			if depth == 0 && e.o.NShards > 1 {
				e.subtree++
				if e.subtree%e.o.NShards != e.o.Shard {
					continue
				}
			}
			np := append(append([]int{}, x.Choices[:i]...), alt)
			e.explore(np, depth+1)
		}
		cost += pointCost(p, p.Chosen, e.o.FreeCost) // always 0 beyond the prefix
	}
}

func pointCost(p Point, alt int, freeCost int) int {
	if alt == 0 {
		return 0
	}
	if p.Free {
		return freeCost
	}
	if p.Env || p.Preemptive {
		return 1
	}
	return 0
}
