package app

// C17 — ingest receiver: stored media and timeline MPD agree for any arrival order.
// (A) every interleaving of the per-track sequences [init, m0..m(M-1)] from the empty receiver;
// (B) breadth-first search by replay over the free alphabet upload(track, k) after a canonical
// start-up (gaps, duplicates, late and jumping numbers). After every upload the channel goroutine
// is run to quiescence under the vrt scheduler and the invariants are evaluated on the real state.

import (
	"bytes"
	"context"
	"crypto/sha1"
	"encoding/binary"
	"fmt"
	"github.com/Eyevinn/mp4ff/mp4"
	"os"
	"path/filepath"
	"sort"
	"strconv"
	"strings"
	"testing"

	"github.com/Dash-Industry-Forum/livesim2/internal/vshim/vh"
	"github.com/Dash-Industry-Forum/livesim2/internal/vshim/vref"
	"github.com/Dash-Industry-Forum/livesim2/internal/vshim/vrt"
)

type c17Op struct {
	track string
	k     int // -1 = init segment, otherwise media segment index (synthesised beyond the bundled six)
}

func (o c17Op) String() string {
	n := o.track[:1]
	if strings.HasPrefix(o.track, "video-") {
		n = "v" + o.track[6:7] + "."
	}
	if o.k < 0 {
		return n + "i"
	}
	return fmt.Sprintf("%s%d", n, o.k)
}

type c17Src struct {
	tr        *rTrack
	seq0      uint32
	tfdt0     uint64
	dur       uint64
	mfhdOff   []int // per bundled segment: offset of the sequence number
	tfdtOff   []int
	tfdtV     []int
	trex      vref.Trex
	payloadOf map[string]int // sha1 of mdat payload -> k (filled while synthesising)
	chunks    int            // > 1: every media segment is uploaded as this many moof/mdat pairs in one request
}

// chunked returns a copy whose media segments are split into n fragments (low-latency ingest sends one segment as
// several chunks in one request).
func (s *c17Src) chunked(n int) *c17Src {
	c := *s
	c.chunks = n
	return &c
}

// aligned returns a copy whose numbering agrees with the decode times (sequence number =
// tfdt/duration), so that the receiver does not shift numbers or times at tune-in.
func (s *c17Src) aligned() *c17Src {
	c := *s
	c.seq0 = 1000
	c.tfdt0 = uint64(c.seq0) * c.dur
	return &c
}

func c17Prepare(tr *rTrack) (*c17Src, error) {
	in, err := vref.ParseInit(tr.init)
	if err != nil {
		return nil, err
	}
	s := &c17Src{tr: tr, trex: in.Trex, payloadOf: map[string]int{}}
	for i, b := range tr.segs {
		top, err := vref.Boxes(b)
		if err != nil {
			return nil, err
		}
		moof := vref.Find(top, "moof")
		mc, _ := vref.Boxes(moof.Body)
		mfhd := vref.Find(mc, "mfhd")
		traf := vref.Find(mc, "traf")
		tc, _ := vref.Boxes(traf.Body)
		tfdt := vref.Find(tc, "tfdt")
		s.mfhdOff = append(s.mfhdOff, moof.Start+moof.Hdr+mfhd.Start+mfhd.Hdr+4)
		s.tfdtOff = append(s.tfdtOff, moof.Start+moof.Hdr+traf.Start+traf.Hdr+tfdt.Start+tfdt.Hdr+4)
		s.tfdtV = append(s.tfdtV, int(tfdt.Body[0]))
		sg, err := vref.ParseSegment(b, in.Trex)
		if err != nil {
			return nil, err
		}
		if i == 0 {
			s.seq0, s.tfdt0, s.dur = sg.Frags[0].Seq, sg.Start(), sg.Dur()
		}
	}
	return s, nil
}

// seg synthesises media segment k: the bundled segment k mod 6 with sequence number and decode
// time rewritten.
func (s *c17Src) seg(k int) []byte {
	b := s.seg1(k)
	if s.chunks > 1 {
		if c, err := c17Split(s.tr.init, b, s.chunks); err == nil {
			return c
		}
	}
	return b
}

// c17Split re-packages a one-fragment segment as n fragments (same samples, same styp); the 4-byte stamp in the
// last mdat box is kept.
func c17Split(initRaw, segRaw []byte, n int) ([]byte, error) {
	stamp := []byte(nil)
	if m := c17Mdat(segRaw); len(m) == 4 {
		stamp = append(stamp, m...)
		segRaw = append([]byte{}, segRaw[:len(segRaw)-4]...)
		binary.BigEndian.PutUint32(segRaw[len(segRaw)-8:], 8)
	}
	fi, err := mp4.DecodeFile(bytes.NewReader(initRaw))
	if err != nil || fi.Init == nil {
		return nil, fmt.Errorf("init: %v", err)
	}
	f, err := mp4.DecodeFile(bytes.NewReader(segRaw))
	if err != nil || len(f.Segments) == 0 || len(f.Segments[0].Fragments) != 1 {
		return nil, fmt.Errorf("segment: %v", err)
	}
	src := f.Segments[0]
	fr := src.Fragments[0]
	fss, err := fr.GetFullSamples(fi.Init.Moov.Mvex.Trex)
	if err != nil || len(fss) < n {
		return nil, fmt.Errorf("samples: %v (%d)", err, len(fss))
	}
	out := mp4.NewMediaSegment()
	out.Styp = src.Styp
	per := (len(fss) + n - 1) / n
	for i := 0; i < len(fss); i += per {
		nf, err := mp4.CreateFragment(fr.Moof.Mfhd.SequenceNumber, fr.Moof.Traf.Tfhd.TrackID)
		if err != nil {
			return nil, err
		}
		out.AddFragment(nf)
		for j := i; j < i+per && j < len(fss); j++ {
			nf.AddFullSample(fss[j])
		}
	}
	var buf bytes.Buffer
	if err := out.Encode(&buf); err != nil {
		return nil, err
	}
	b := buf.Bytes()
	if stamp != nil && string(b[len(b)-4:]) == "mdat" && binary.BigEndian.Uint32(b[len(b)-8:]) == 8 {
		binary.BigEndian.PutUint32(b[len(b)-8:], 12)
		b = append(b, stamp...)
	}
	return b, nil
}

func (s *c17Src) seg1(k int) []byte {
	i := k % len(s.tr.segs)
	b := append([]byte{}, s.tr.segs[i]...)
	binary.BigEndian.PutUint32(b[s.mfhdOff[i]:], s.seq0+uint32(k))
	t := s.tfdt0 + uint64(k)*s.dur
	if s.tfdtV[i] == 1 {
		binary.BigEndian.PutUint64(b[s.tfdtOff[i]:], t)
	} else {
		binary.BigEndian.PutUint32(b[s.tfdtOff[i]:], uint32(t))
	}
	// the bundled segments all have the same (empty) media payload: put k into the mdat box so
	// that a stored file can be attributed to the upload it came from
	if string(b[len(b)-4:]) == "mdat" && binary.BigEndian.Uint32(b[len(b)-8:]) == 8 {
		binary.BigEndian.PutUint32(b[len(b)-8:], 12)
		b = binary.BigEndian.AppendUint32(b, 0xC1700000|uint32(k))
	}
	return b
}

type c17World struct {
	storage string
	rc      *Receiver
	h       interface{ ServeHTTP(w, r any) }
}

type c17Check struct {
	rep   *vh.Report
	srcs  map[string]*c17Src
	W     uint32 // window in segments implied by timeShiftBufferDepth (tsbd/dur + 2)
	tag   string
	mode  string
	upNr  map[string]map[int64]bool // per execution: output numbers under which accepted uploads were stored
	upPre map[string]map[int64]bool // ... and whether that was before tune-in (no window known, nothing removed)
}

// c17Features names what is unusual about a history: the classes of arrival order the
// statement lists. They become part of a violation's signature.
func c17Features(hist []c17Op) string {
	maxK := map[string]int{}
	seen := map[c17Op]bool{}
	media := map[string]int{}
	f := map[string]bool{}
	anyStarted := false // some track has delivered two media segments (tune-in can have happened)
	for _, o := range hist {
		if o.k < 0 {
			if seen[o] {
				f["dup-init"] = true
			}
			seen[o] = true
			if anyStarted {
				f["late-track"] = true
			}
			if _, ok := maxK[o.track]; !ok {
				maxK[o.track] = -1
			}
			continue
		}
		if seen[o] {
			f["dup"] = true
		}
		m, ok := maxK[o.track]
		if !ok {
			f["media-before-init"] = true
			m = -1
		}
		switch {
		case o.k > m+2:
			f["jump"] = true
		case o.k > m+1:
			f["gap"] = true
		case o.k <= m && !seen[o]:
			f["late"] = true
		}
		seen[o] = true
		if o.k > m {
			maxK[o.track] = o.k
		}
		media[o.track]++
		if media[o.track] >= 2 {
			if !anyStarted {
				for tr := range maxK {
					if media[tr] == 0 {
						f["slow-track"] = true
					}
				}
			}
			anyStarted = true
		}
	}
	var l []string
	for k := range f {
		l = append(l, k)
	}
	sort.Strings(l)
	if len(l) == 0 {
		return "in-order"
	}
	return strings.Join(l, "+")
}

// c17Replay applies the history to a fresh receiver; after every upload the invariants are checked.
// Returns the state digest after the last operation.
func (c *c17Check) replay(root string, caseNr int, hist []c17Op, tsbd uint64) (digest string, fails []vrt.Failure, hung bool) {
	storage := fmt.Sprintf("%s/c%d", root, caseNr)
	_ = os.MkdirAll(storage, 0o755)
	defer os.RemoveAll(storage)
	c.upNr = map[string]map[int64]bool{}
	c.upPre = map[string]map[int64]bool{}
	x := vrt.Run(nil, vrt.RunOpts{AllowBlockedDaemons: true, WatchdogS: 60, LoopHorizon: 3_000_000, NoUnlockPoints: true, StartNS: 1_700_000_000_000_000_000}, func(s *vrt.Sched) {
		ctx, cancel := context.WithCancel(context.Background())
		defer cancel()
		rc, h, err := rNewReceiver(ctx, storage, nil, tsbd)
		if err != nil {
			s.Fail("setup", err.Error())
			return
		}
		newest := int64(-1)
		for oi, op := range hist {
			src := c.srcs[op.track]
			var body []byte
			name := "init"
			if op.k >= 0 {
				body = src.seg(op.k)
				name = strconv.Itoa(op.k)
			} else {
				body = src.tr.init
			}
			path := fmt.Sprintf("/upload/ch1/%s/%s%s", op.track, name, src.tr.ext)
			tunedIn := false
			if ch0, ok := rc.channelMgr.GetChannel("ch1"); ok {
				tunedIn = ch0.maxNrBufSegs > 0
			}
			r := rPut(h, path, body, true, "", "")
			s.Quiesce()
			where := fmt.Sprintf("after %v (op %d)", hist[:oi+1], oi)
			c.tag = c.mode + ":" + c17Features(hist[:oi+1])
			if r.crashed() {
				site, val := rPanicSite(rc, path, body)
				if val != "{}" {
					s.Fail("C17.alive:handler-panic:"+site, where+": "+val)
				}
				return
			}
			ch, ok := rc.channelMgr.GetChannel("ch1")
			if !ok {
				s.Fail("C17.alive:no-channel", where)
				return
			}
			// I1: an accepted media upload is stored under its track with the uploaded content
			if op.k >= 0 && r.Code == 200 {
				c.rep.Hit("C17.stored")
				nr := c.stored(storage, op, body)
				if nr >= 0 {
					if c.upNr[op.track] == nil {
						c.upNr[op.track] = map[int64]bool{}
						c.upPre[op.track] = map[int64]bool{}
					}
					c.upNr[op.track][nr] = true
					c.upPre[op.track][nr] = !tunedIn
				}
				if nr == -1 {
					// it may already have left the window
					if int64(op.k) > newest-int64(c.W)-1 {
						s.Fail("C17.stored:accepted-not-stored:"+c.tag, fmt.Sprintf("%s: %s answered 200 but no stored segment of track %s has its media payload", where, path, op.track))
					}
				}
			}
			if op.k >= 0 && int64(op.k) > newest {
				newest = int64(op.k)
			}
			c.invariants(s, storage, ch, where, &newest)
		}
		if ch, ok := rc.channelMgr.GetChannel("ch1"); ok {
			digest = c17Digest(storage, ch)
		}
	})
	return digest, x.Fails, x.Hung
}

func (c *c17Check) stored(storage string, op c17Op, body []byte) int64 {
	src := c.srcs[op.track]
	up, err := vref.ParseSegment(body, src.trex)
	if err != nil {
		return -2
	}
	files, _ := os.ReadDir(filepath.Join(storage, "ch1", op.track))
	for _, f := range files {
		if strings.HasPrefix(f.Name(), "init") {
			continue
		}
		b, err := os.ReadFile(filepath.Join(storage, "ch1", op.track, f.Name()))
		if err != nil {
			continue
		}
		sg, err := vref.ParseSegment(b, src.trex)
		if err != nil {
			continue
		}
		if string(c17Mdat(b)) != string(c17Mdat(body)) {
			continue
		}
		a, bb := sg.Samples(), up.Samples()
		if len(a) != len(bb) {
			continue
		}
		same := true
		for i := range a {
			if a[i].Hash != bb[i].Hash {
				same = false
				break
			}
		}
		if same {
			nr, _ := strconv.ParseInt(strings.TrimSuffix(f.Name(), filepath.Ext(f.Name())), 10, 64)
			return nr
		}
	}
	return -1
}

var c17LastListed = map[string]int64{} // per execution key; reset by caller

func (c *c17Check) invariants(s *vrt.Sched, storage string, ch *channel, where string, newest *int64) {
	g := ch.segTimesGen
	// I5: internal buffers within their window
	c.rep.Hit("C17.window")
	if g.counters._nrCounters > g.counters.windowSize || int(g.counters._nrCounters) > len(g.counters.counters) {
		s.Fail("C17.window:counters-overflow:"+c.tag, fmt.Sprintf("%s: %d counters in a window of %d (slice %d)", where, g.counters._nrCounters, g.counters.windowSize, len(g.counters.counters)))
	}
	for i := 1; i < int(g.counters._nrCounters) && i < len(g.counters.counters); i++ {
		if g.counters.counters[i].seqNr <= g.counters.counters[i-1].seqNr {
			s.Fail("C17.window:counters-unordered:"+c.tag, fmt.Sprintf("%s: counter numbers %v are not strictly increasing", where, g.counters.counters[:g.counters._nrCounters]))
			break
		}
	}
	for name, b := range g.segDataBuffers {
		if b._nrItems > b.size || int(b._nrItems) > len(b.items) {
			s.Fail("C17.window:buffer-overflow:"+c.tag, fmt.Sprintf("%s: track %s buffer holds %d items, size %d", where, name, b._nrItems, b.size))
		}
		// once the channel has started, no track buffer may hold more than the window implied by
		// timeShiftBufferDepth (maxNrBufSegs-1 listed numbers)
		if g._started && ch.maxNrBufSegs > 1 && b._nrItems > ch.maxNrBufSegs-1 {
			s.Fail("C17.window:buffer-beyond-window:"+c.mode, fmt.Sprintf("%s: track %s buffer holds %d items, the window is %d", where, name, b._nrItems, ch.maxNrBufSegs-1))
		}
	}
	// stored files per track within the window
	tracks, _ := os.ReadDir(filepath.Join(storage, "ch1"))
	stored := map[string]map[int64][]byte{}
	for _, td := range tracks {
		if !td.IsDir() {
			continue
		}
		stored[td.Name()] = map[int64][]byte{}
		files, _ := os.ReadDir(filepath.Join(storage, "ch1", td.Name()))
		var max int64 = -1
		for _, f := range files {
			base := strings.TrimSuffix(f.Name(), filepath.Ext(f.Name()))
			nr, err := strconv.ParseInt(base, 10, 64)
			if err != nil {
				continue
			}
			b, _ := os.ReadFile(filepath.Join(storage, "ch1", td.Name(), f.Name()))
			stored[td.Name()][nr] = b
			if nr > max {
				max = nr
			}
		}
		if ch.maxNrBufSegs > 0 {
			said := map[string]bool{}
			for _, nr := range c17Keys(stored[td.Name()]) {
				if nr < max-int64(ch.maxNrBufSegs)-1 {
					// the upload of nr+window is what removes nr
					kind := "stale-file:successor-never-uploaded:"
					if c.upNr[td.Name()][nr+int64(ch.maxNrBufSegs)] {
						kind = "stale-file:although-successor-uploaded:"
						if c.upPre[td.Name()][nr+int64(ch.maxNrBufSegs)] {
							kind = "stale-file:successor-uploaded-before-tune-in:"
						}
					}
					if ch.masterSeqNrShift != 0 && nr < max-int64(ch.masterSeqNrShift)/2 {
						kind = "stale-file:pre-tune-in-number:"
					}
					// the two explained causes are identified by the cause alone; anything else
					// also carries the class of arrival order
					if kind == "stale-file:although-successor-uploaded:" {
						kind += c.tag
					} else {
						kind += c.mode
					}
					if !said[kind] {
						said[kind] = true
						s.Fail("C17.window:"+kind, fmt.Sprintf("%s: track %s still stores segment %d although its newest is %d and the window is %d segments", where, td.Name(), nr, max, ch.maxNrBufSegs))
					}
				}
			}
		}
	}
	// the timeline MPD
	mp := filepath.Join(storage, "ch1", timelineNrMPD)
	raw, err := os.ReadFile(mp)
	if err != nil {
		return // not published yet
	}
	c.rep.Hit("C17.mpd")
	m, err := vref.ParseMPD(raw)
	if err != nil || len(m.Periods) != 1 {
		s.Fail("C17.mpd:incomplete-document:"+c.tag, fmt.Sprintf("%s: %s does not parse as a complete MPD: %v", where, timelineNrMPD, err))
		return
	}
	segs, err := m.TimelineSegs()
	if err != nil {
		s.Fail("C17.mpd:timeline-unreadable:"+c.tag, where+": "+err.Error())
		return
	}
	var listedMax int64 = -1
	byRep := map[string][]vref.DeclSeg{}
	for _, d := range segs {
		byRep[d.RepID] = append(byRep[d.RepID], d)
	}
	for id, l := range byRep {
		src := c.srcs[id]
		for i, d := range l {
			if i > 0 && d.Nr != l[i-1].Nr+1 {
				s.Fail("C17.mpd:not-contiguous:"+c.tag, fmt.Sprintf("%s: rep %s lists %d after %d", where, id, d.Nr, l[i-1].Nr))
			}
			if d.Nr > listedMax {
				listedMax = d.Nr
			}
			b, ok := stored[id][d.Nr]
			if !ok {
				cause := "never-stored:" + c.tag
				if c.upNr[id][d.Nr] {
					cause = "removed-early:" + c.tag
					// explained cause: the listing is no longer than the window, and the file was
					// removed by the upload of number+window of the same track, which is ahead of
					// the slowest track
					if ks := c17Keys(stored[id]); len(ks) > 0 && ks[len(ks)-1] >= d.Nr+int64(ch.maxNrBufSegs) &&
						len(l) <= int(ch.maxNrBufSegs)-1 {
						cause = "removed-as-track-ran-ahead:" + c.mode
					}
				}
				s.Fail("C17.mpd:listed-without-file:"+cause, fmt.Sprintf("%s: MPD lists segment %d for representation %s, which has no stored file (stored: %v)", where, d.Nr, id, c17Keys(stored[id])))
				continue
			}
			if src == nil {
				continue
			}
			sg, err := vref.ParseSegment(b, src.trex)
			if err != nil {
				s.Fail("C17.mpd:stored-unparsable:"+c.tag, fmt.Sprintf("%s: stored %s/%d: %v", where, id, d.Nr, err))
				continue
			}
			c.rep.Hit("C17.times")
			outTS := uint64(1)
			if d.TS != 0 {
				outTS = d.TS
			}
			_ = outTS
			if sg.Start() != d.Time || sg.Dur() != d.Dur {
				s.Fail("C17.times:time-or-duration:"+c.tag, fmt.Sprintf("%s: rep %s segment %d is listed as (t=%d d=%d), the stored file has (tfdt=%d dur=%d)", where, id, d.Nr, d.Time, d.Dur, sg.Start(), sg.Dur()))
			}
		}
	}
	// every registered track must be in the MPD's listing (a listed number needs a segment of every track)
	// (a registered track that the published MPD does not mention yet is not judged: the
	// statement constrains what the MPD lists)
	// I4: newest listed number never decreases
	c.rep.Hit("C17.monotone")
	if prev, ok := s.User.(int64); ok && listedMax < prev {
		s.Fail("C17.monotone:newest-decreased:"+c.tag, fmt.Sprintf("%s: newest listed number went from %d to %d", where, prev, listedMax))
	}
	s.User = listedMax
}

func c17Mdat(b []byte) []byte {
	top, err := vref.Boxes(b)
	if err != nil {
		return nil
	}
	if m := vref.Find(top, "mdat"); m != nil {
		return m.Body
	}
	return nil
}

func c17Keys(m map[int64][]byte) []int64 {
	var out []int64
	for k := range m {
		out = append(out, k)
	}
	sort.Slice(out, func(i, j int) bool { return out[i] < out[j] })
	return out
}

func c17Digest(storage string, ch *channel) string {
	var b strings.Builder
	g := ch.segTimesGen
	fmt.Fprintf(&b, "cnt=%v/%d lat=%d nt=%d st=%v sh=%v ws=%d|", g.counters.counters[:min(int(g.counters._nrCounters), len(g.counters.counters))], g.counters.windowSize, g.latestSeqNr, g._nrTracks, g._started, g._shifted, g.windowSize)
	var names []string
	for n := range g.segDataBuffers {
		names = append(names, n)
	}
	sort.Strings(names)
	for _, n := range names {
		sb := g.segDataBuffers[n]
		fmt.Fprintf(&b, "%s[", n)
		for i := 0; i < int(sb._nrItems) && i < len(sb.items); i++ {
			fmt.Fprintf(&b, "%d:%d:%v,", sb.items[i].seqNr, sb.items[i].dur, sb.items[i].isShifted)
		}
		fmt.Fprintf(&b, "]%d|", sb.size)
	}
	fmt.Fprintf(&b, "m=%s,%d,%d,%d,%d,%d|", ch.masterTrName, ch.masterSegDuration, ch.masterTimescale, ch.masterSeqNrShift, ch.masterTimeShift, ch.maxNrBufSegs)
	var files []string
	_ = filepath.Walk(storage, func(p string, info os.FileInfo, err error) error {
		if err == nil && !info.IsDir() {
			rel, _ := filepath.Rel(storage, p)
			if strings.HasSuffix(rel, ".mpd") {
				data, _ := os.ReadFile(p)
				rel += fmt.Sprintf(":%x", sha1.Sum(data))
			}
			files = append(files, rel)
		}
		return nil
	})
	sort.Strings(files)
	fmt.Fprintf(&b, "f=%v", files)
	return fmt.Sprintf("%x", sha1.Sum([]byte(b.String())))
}

func TestVerifC17(t *testing.T) {
	rep := vh.NewReport("C17")
	defer rep.Write()
	quick := vh.Quick()
	tracks, err := rLoadTracks()
	if err != nil {
		t.Fatalf("testdata: %v", err)
	}
	sh, _ := vh.Shard()
	root, err := rScratch(fmt.Sprintf("c17-%d", sh))
	if err != nil {
		t.Fatalf("scratch: %v", err)
	}
	defer os.RemoveAll(root)
	srcs := map[string]*c17Src{}
	for n, tr := range tracks {
		s, err := c17Prepare(tr)
		if err != nil {
			t.Fatalf("prepare %s: %v", n, err)
		}
		srcs[n] = s
	}
	v, v2, a, tx := "video-500Kbps", "video-800Kbps", "audio-nor-128Kbps", "text-nor-0"
	const tsbd = 8
	W := uint32(tsbd*uint64(srcs[v].trex.DefDur+1)/uint64(srcs[v].trex.DefDur+1)) + 0
	W = uint32(uint64(tsbd)*90000/srcs[v].dur) + 2
	caseNr := 0
	report := func(tag string, hist []c17Op, fails []vrt.Failure, hung bool) {
		for _, f := range fails {
			parts := strings.SplitN(f.Sig, ":", 2)
			clause, sig := "C17.alive", f.Sig
			if len(parts) == 2 && strings.HasPrefix(parts[0], "C17.") {
				clause, sig = parts[0], parts[1]
			} else if strings.HasPrefix(f.Sig, "panic:") {
				sig = "goroutine-" + f.Sig + ":" + tag + ":" + c17Features(hist)
			} else {
				sig = f.Sig + ":" + tag + ":" + c17Features(hist)
			}
			rep.Violate(clause, sig, f.Msg, map[string]any{"history": fmt.Sprint(hist)})
		}
		if hung {
			rep.Violate("C17.alive", "hang:"+tag+":"+c17Features(hist), fmt.Sprintf("no progress for history %v", hist), map[string]any{"history": fmt.Sprint(hist)})
		}
	}
	allSrcs := srcs
	for _, mode := range []string{"shifted", "aligned"} {
		srcs := allSrcs
		if mode == "aligned" {
			srcs = map[string]*c17Src{}
			for n, s := range allSrcs {
				srcs[n] = s.aligned()
			}
		}
		// ---- (A) all interleavings from the empty receiver
		type setT struct {
			tracks []string
			M      int
		}
		sets := []setT{{[]string{v, a}, 3}, {[]string{v, a, tx}, 2}, {[]string{v, v2}, 3}, {[]string{v, a}, 5}}
		if !quick {
			sets = append(sets, setT{[]string{v, a, tx}, 3}, setT{[]string{v, v2, a}, 3}, setT{[]string{v, a}, 7})
		}
		if mode == "aligned" {
			sets = append(sets, setT{[]string{v, a}, -4}) // M < 0: the same with every media segment sent as two chunks
		}
		for _, st := range sets {
			ck := &c17Check{rep: rep, srcs: srcs, W: W, mode: mode}
			if st.M < 0 {
				st.M = -st.M
				cs := map[string]*c17Src{}
				for n, s := range srcs {
					cs[n] = s.chunked(2)
				}
				ck.srcs = cs
			}
			var seqs [][]c17Op
			for _, tn := range st.tracks {
				q := []c17Op{{tn, -1}}
				for k := 0; k < st.M; k++ {
					q = append(q, c17Op{tn, k})
				}
				seqs = append(seqs, q)
			}
			next := make([]int, len(seqs))
			var cur []c17Op
			n := 0
			var rec func()
			rec = func() {
				done := true
				for i := range seqs {
					if next[i] < len(seqs[i]) {
						done = false
						cur = append(cur, seqs[i][next[i]])
						next[i]++
						rec()
						next[i]--
						cur = cur[:len(cur)-1]
					}
				}
				if done {
					n++
					if !vh.Mine(n) || rep.OutOfBudget() {
						return
					}
					caseNr++
					d, fails, hung := ck.replay(root, caseNr, cur, tsbd)
					rep.AddStates(int64(len(cur)))
					rep.AddTrans(int64(len(cur)))
					rep.AddExecs(1)
					rep.Outcome(d)
					report(mode, append([]c17Op{}, cur...), fails, hung)
				}
			}
			rec()
			rep.Extra[fmt.Sprintf("orders_%s_%s_x%d", mode, strings.Join(st.tracks, "+"), st.M)] = n
			rep.Sample(map[string]any{"mode": mode, "tracks": st.tracks, "media_segments_per_track": st.M, "orders": n})
		}
		// ---- (B) BFS by replay after a canonical start-up
		// two track sets: video+audio with a late text track, and two video representations of one
		// adaptation set (which share a SegmentTimeline) with a late audio track
		for _, bt := range [][3]string{{v, a, tx}, {v, v2, a}} {
			v, a, tx := bt[0], bt[1], bt[2]
			ck := &c17Check{rep: rep, srcs: srcs, W: W, mode: mode}
			startup := []c17Op{{v, -1}, {a, -1}, {v, 0}, {a, 0}, {v, 1}, {a, 1}, {v, 2}, {a, 2}}
			depth := 4
			if !quick {
				depth = 6
			}
			if e, err := strconv.Atoi(os.Getenv("VERIF_C17_DEPTH")); err == nil && e > 0 {
				depth = e
			}
			type node struct{ hist []c17Op }
			frontier := []node{{startup}}
			seen := map[string]bool{}
			nextK := func(hist []c17Op, tr string) int {
				m := -1
				for _, o := range hist {
					if o.track == tr && o.k > m {
						m = o.k
					}
				}
				return m + 1
			}
			states := 0
			for d := 0; d < depth && len(frontier) > 0; d++ {
				var nf []node
				for ni, nd := range frontier {
					// level 0 is run by every worker (and counted by worker 0); the level-1 frontier
					// is divided over the workers, each of which searches its share to the end
					if d == 1 && !vh.Mine(ni) {
						continue
					}
					count := d > 0 || sh == 0
					type alpha struct {
						tr string
						k  int
					}
					var al []alpha
					for _, tr := range []string{v, a} {
						nk := nextK(nd.hist, tr)
						for _, k := range []int{nk, nk + 1, nk - 1, nk + 3, nk - 3} {
							if k >= 0 {
								al = append(al, alpha{tr, k})
							}
						}
					}
					// a late track: its init, then its segments in step with the video track
					if nt := nextK(nd.hist, tx); nt == 0 {
						hasInit := false
						for _, o := range nd.hist {
							if o.track == tx {
								hasInit = true
							}
						}
						if !hasInit {
							al = append(al, alpha{tx, -1})
						} else {
							al = append(al, alpha{tx, nextK(nd.hist, v) - 1})
						}
					} else {
						al = append(al, alpha{tx, nt}, alpha{tx, nt + 1})
					}
					for _, e := range al {
						if e.k < -1 {
							continue
						}
						if rep.OutOfBudget() {
							rep.Extra["bfs_states_"+mode+"_"+a] = states
							rep.Cap("budget")
							return
						}
						h2 := append(append([]c17Op{}, nd.hist...), c17Op{e.tr, e.k})
						caseNr++
						dg, fails, hung := ck.replay(root, caseNr, h2, tsbd)
						if count {
							rep.AddTrans(1)
							rep.AddExecs(1)
						}
						report(mode, h2, fails, hung)
						dead := hung || dg == ""
						for _, f := range fails {
							if strings.Contains(f.Sig, "panic") || strings.Contains(f.Sig, "deadlock") {
								dead = true
							}
						}
						if dead {
							continue // the instance is gone: nothing to explore behind it
						}
						if !seen[dg] {
							seen[dg] = true
							if count {
								states++
								rep.AddStates(1)
								rep.Outcome(dg)
							}
							nf = append(nf, node{h2})
						}
					}
				}
				frontier = nf
			}
			rep.Extra["bfs_states_"+mode+"_"+a] = states
			rep.Extra["bfs_frontier_left_"+mode+"_"+a] = len(frontier)
			rep.Sample(map[string]any{"mode": mode, "tracks": bt, "bfs_depth": depth, "alphabet": "upload(track in {video,audio}, k in {next, next+1, next-1, next+3, next-3}); late text track: init, then next / next+1", "states": states})
		}
	}
}
