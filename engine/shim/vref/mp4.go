// Package vref holds the independent reference side of the checks: an own
// ISO-BMFF box walker, an own MPD reader, the VoD asset model and small exact
// arithmetic helpers. Nothing here calls into livesim2's application code.
package vref

import (
	"crypto/sha1"
	"encoding/binary"
	"encoding/hex"
	"fmt"
)

type Box struct {
	Type  string
	Start int // offset of the box in the parent buffer
	Size  int
	Hdr   int
	Body  []byte // payload after the header
	Raw   []byte
}

// Boxes splits b into boxes (32-bit sizes and 64-bit largesize supported).
func Boxes(b []byte) ([]Box, error) {
	var out []Box
	pos := 0
	for pos < len(b) {
		if pos+8 > len(b) {
			return out, fmt.Errorf("truncated box header at %d", pos)
		}
		size := int(binary.BigEndian.Uint32(b[pos:]))
		typ := string(b[pos+4 : pos+8])
		hdr := 8
		if size == 1 {
			if pos+16 > len(b) {
				return out, fmt.Errorf("truncated largesize at %d", pos)
			}
			size = int(binary.BigEndian.Uint64(b[pos+8:]))
			hdr = 16
		} else if size == 0 {
			size = len(b) - pos
		}
		if size < hdr || pos+size > len(b) {
			return out, fmt.Errorf("box %q at %d: size %d exceeds buffer %d", typ, pos, size, len(b))
		}
		out = append(out, Box{Type: typ, Start: pos, Size: size, Hdr: hdr, Body: b[pos+hdr : pos+size], Raw: b[pos : pos+size]})
		pos += size
	}
	return out, nil
}

func Find(bs []Box, typ string) *Box {
	for i := range bs {
		if bs[i].Type == typ {
			return &bs[i]
		}
	}
	return nil
}

// Path descends through container boxes.
func Path(b []byte, path ...string) *Box {
	cur := b
	var bx *Box
	for _, p := range path {
		bs, _ := Boxes(cur)
		bx = Find(bs, p)
		if bx == nil {
			return nil
		}
		cur = bx.Body
	}
	return bx
}

type Sample struct {
	Dur   uint32
	Size  uint32
	Flags uint32
	CTO   int32
	Hash  string // sha1 of the payload
	Data  []byte
}

type Emsg struct {
	Version          int
	Scheme, Value    string
	Timescale        uint32
	PresentationTime uint64 // v1
	TimeDelta        uint32 // v0
	Duration         uint32
	ID               uint32
	Data             []byte
}

type Frag struct {
	Seq         uint32
	TrackID     uint32
	Tfdt        uint64
	TfdtV       int
	Samples     []Sample
	MoofStart   int
	MoofSize    int
	MdatStart   int // offset of mdat box
	MdatPayload int // offset of first mdat payload byte
	DataOffset  int32
	HasDataOff  bool
	Senc        bool
	SubsSizes   []uint32 // subsample sizes of the first subs entry, if any
}

func (f *Frag) Dur() uint64 {
	var d uint64
	for _, s := range f.Samples {
		d += uint64(s.Dur)
	}
	return d
}

type Seg struct {
	Brands  []string // styp major + compatible brands
	HasStyp bool
	Sidx    *Sidx
	Emsgs   []Emsg
	Frags   []Frag
	Order   []string // top-level box types in order
}

type Sidx struct {
	Timescale uint32
	EPT       uint64
	RefSize   uint32
	SubDur    uint32
}

func (s *Seg) Start() uint64 { return s.Frags[0].Tfdt }

func (s *Seg) Dur() uint64 {
	var d uint64
	for i := range s.Frags {
		d += s.Frags[i].Dur()
	}
	return d
}

func (s *Seg) Samples() []Sample {
	var out []Sample
	for i := range s.Frags {
		out = append(out, s.Frags[i].Samples...)
	}
	return out
}

// Trex holds the track defaults from the init segment.
type Trex struct {
	TrackID                   uint32
	DefDur, DefSize, DefFlags uint32
}

type Init struct {
	Timescale           uint32
	TrackID             uint32
	Trex                Trex
	SampleEntry         string // e.g. avc1, mp4a, encv, stpp
	OrigFormat          string // frma, if protected
	Scheme              string // schm scheme type
	TencKID             string // hex
	TencIV              []byte
	TencIVSize          int
	CryptByte, SkipByte int
	Lang                string
	Pssh                int
	Handler             string
	HasMehd             bool
}

func ParseInit(b []byte) (*Init, error) {
	in := &Init{}
	moov := Path(b, "moov")
	if moov == nil {
		return nil, fmt.Errorf("no moov")
	}
	top, _ := Boxes(moov.Body)
	for _, bx := range top {
		if bx.Type == "pssh" {
			in.Pssh++
		}
	}
	if mdhd := Path(moov.Body, "trak", "mdia", "mdhd"); mdhd != nil && len(mdhd.Body) >= 24 {
		v := mdhd.Body[0]
		if v == 1 && len(mdhd.Body) >= 36 {
			in.Timescale = binary.BigEndian.Uint32(mdhd.Body[20:])
			l := binary.BigEndian.Uint16(mdhd.Body[32:])
			in.Lang = langCode(l)
		} else {
			in.Timescale = binary.BigEndian.Uint32(mdhd.Body[12:])
			l := binary.BigEndian.Uint16(mdhd.Body[20:])
			in.Lang = langCode(l)
		}
	}
	if hdlr := Path(moov.Body, "trak", "mdia", "hdlr"); hdlr != nil && len(hdlr.Body) >= 12 {
		in.Handler = string(hdlr.Body[8:12])
	}
	if tkhd := Path(moov.Body, "trak", "tkhd"); tkhd != nil {
		if tkhd.Body[0] == 1 {
			in.TrackID = binary.BigEndian.Uint32(tkhd.Body[20:])
		} else {
			in.TrackID = binary.BigEndian.Uint32(tkhd.Body[12:])
		}
	}
	if trex := Path(moov.Body, "mvex", "trex"); trex != nil && len(trex.Body) >= 24 {
		in.Trex = Trex{TrackID: binary.BigEndian.Uint32(trex.Body[4:]), DefDur: binary.BigEndian.Uint32(trex.Body[12:]),
			DefSize: binary.BigEndian.Uint32(trex.Body[16:]), DefFlags: binary.BigEndian.Uint32(trex.Body[20:])}
	}
	if Path(moov.Body, "mvex", "mehd") != nil {
		in.HasMehd = true
	}
	if stsd := Path(moov.Body, "trak", "mdia", "minf", "stbl", "stsd"); stsd != nil && len(stsd.Body) >= 16 {
		entries, _ := Boxes(stsd.Body[8:])
		if len(entries) > 0 {
			e := entries[0]
			in.SampleEntry = e.Type
			if e.Type == "encv" || e.Type == "enca" {
				// find sinf by scanning for the box signature inside the sample entry
				if sinf := scanBox(e.Body, "sinf"); sinf != nil {
					if frma := Path(sinf.Body, "frma"); frma != nil && len(frma.Body) >= 4 {
						in.OrigFormat = string(frma.Body[:4])
					}
					if schm := Path(sinf.Body, "schm"); schm != nil && len(schm.Body) >= 8 {
						in.Scheme = string(schm.Body[4:8])
					}
					if tenc := Path(sinf.Body, "schi", "tenc"); tenc != nil && len(tenc.Body) >= 24 {
						in.CryptByte = int(tenc.Body[5] >> 4)
						in.SkipByte = int(tenc.Body[5] & 0xf)
						in.TencIVSize = int(tenc.Body[7])
						in.TencKID = hex.EncodeToString(tenc.Body[8:24])
						if in.TencIVSize == 0 && len(tenc.Body) > 25 {
							n := int(tenc.Body[24])
							if 25+n <= len(tenc.Body) {
								in.TencIV = append([]byte{}, tenc.Body[25:25+n]...)
							}
						}
					}
				}
			}
		}
	}
	return in, nil
}

func langCode(l uint16) string {
	if l == 0 {
		return ""
	}
	return string([]byte{byte((l>>10)&0x1f) + 0x60, byte((l>>5)&0x1f) + 0x60, byte(l&0x1f) + 0x60})
}

// scanBox finds a child box of the given type by trying every offset (sample entries have
// codec specific fixed parts before their children).
func scanBox(b []byte, typ string) *Box {
	for off := 0; off+8 <= len(b); off++ {
		if string(b[off+4:off+8]) == typ {
			size := int(binary.BigEndian.Uint32(b[off:]))
			if size >= 8 && off+size <= len(b) {
				return &Box{Type: typ, Start: off, Size: size, Hdr: 8, Body: b[off+8 : off+size], Raw: b[off : off+size]}
			}
		}
	}
	return nil
}

// ParseSegment parses a media segment (styp? sidx? emsg* (moof mdat)+).
func ParseSegment(b []byte, trex Trex) (*Seg, error) {
	top, err := Boxes(b)
	if err != nil {
		return nil, err
	}
	seg := &Seg{}
	var pendingMoof *Frag
	for _, bx := range top {
		seg.Order = append(seg.Order, bx.Type)
		switch bx.Type {
		case "styp":
			seg.HasStyp = true
			if len(bx.Body) >= 8 {
				seg.Brands = append(seg.Brands, string(bx.Body[0:4]))
				for k := 8; k+4 <= len(bx.Body); k += 4 {
					seg.Brands = append(seg.Brands, string(bx.Body[k:k+4]))
				}
			}
		case "sidx":
			sx := &Sidx{}
			v := bx.Body[0]
			sx.Timescale = binary.BigEndian.Uint32(bx.Body[8:])
			p := 12
			if v == 0 {
				sx.EPT = uint64(binary.BigEndian.Uint32(bx.Body[p:]))
				p += 8
			} else {
				sx.EPT = binary.BigEndian.Uint64(bx.Body[p:])
				p += 16
			}
			p += 2
			cnt := int(binary.BigEndian.Uint16(bx.Body[p:]))
			p += 2
			if cnt > 0 && p+12 <= len(bx.Body) {
				sx.RefSize = binary.BigEndian.Uint32(bx.Body[p:]) & 0x7fffffff
				sx.SubDur = binary.BigEndian.Uint32(bx.Body[p+4:])
			}
			seg.Sidx = sx
		case "emsg":
			e, err := parseEmsg(bx.Body)
			if err != nil {
				return nil, err
			}
			seg.Emsgs = append(seg.Emsgs, e)
		case "moof":
			f, err := parseMoof(bx, trex)
			if err != nil {
				return nil, err
			}
			pendingMoof = f
		case "mdat":
			if pendingMoof == nil {
				return nil, fmt.Errorf("mdat without moof")
			}
			f := pendingMoof
			pendingMoof = nil
			f.MdatStart = bx.Start
			f.MdatPayload = bx.Start + bx.Hdr
			// sample data location: moof start + data_offset (default-base-is-moof / offset given)
			off := f.MdatPayload
			if f.HasDataOff {
				off = f.MoofStart + int(f.DataOffset)
			}
			for i := range f.Samples {
				sz := int(f.Samples[i].Size)
				if off < 0 || off+sz > len(b) {
					return nil, fmt.Errorf("sample %d data [%d,%d) outside segment of %d bytes", i, off, off+sz, len(b))
				}
				f.Samples[i].Data = b[off : off+sz]
				h := sha1.Sum(f.Samples[i].Data)
				f.Samples[i].Hash = hex.EncodeToString(h[:8])
				off += sz
			}
			seg.Frags = append(seg.Frags, *f)
		}
	}
	if len(seg.Frags) == 0 {
		return nil, fmt.Errorf("no fragment in segment (boxes %v)", seg.Order)
	}
	return seg, nil
}

func parseEmsg(b []byte) (Emsg, error) {
	var e Emsg
	if len(b) < 4 {
		return e, fmt.Errorf("short emsg")
	}
	e.Version = int(b[0])
	p := 4
	readStr := func() string {
		s := p
		for p < len(b) && b[p] != 0 {
			p++
		}
		str := string(b[s:p])
		p++
		return str
	}
	if e.Version == 0 {
		e.Scheme = readStr()
		e.Value = readStr()
		if p+16 > len(b) {
			return e, fmt.Errorf("short emsg v0")
		}
		e.Timescale = binary.BigEndian.Uint32(b[p:])
		e.TimeDelta = binary.BigEndian.Uint32(b[p+4:])
		e.Duration = binary.BigEndian.Uint32(b[p+8:])
		e.ID = binary.BigEndian.Uint32(b[p+12:])
		p += 16
	} else {
		if p+20 > len(b) {
			return e, fmt.Errorf("short emsg v1")
		}
		e.Timescale = binary.BigEndian.Uint32(b[p:])
		e.PresentationTime = binary.BigEndian.Uint64(b[p+4:])
		e.Duration = binary.BigEndian.Uint32(b[p+12:])
		e.ID = binary.BigEndian.Uint32(b[p+16:])
		p += 20
		e.Scheme = readStr()
		e.Value = readStr()
	}
	if p <= len(b) {
		e.Data = b[p:]
	}
	return e, nil
}

func parseMoof(moof Box, trex Trex) (*Frag, error) {
	f := &Frag{MoofStart: moof.Start, MoofSize: moof.Size}
	ch, err := Boxes(moof.Body)
	if err != nil {
		return nil, fmt.Errorf("moof: %w", err)
	}
	if mfhd := Find(ch, "mfhd"); mfhd != nil && len(mfhd.Body) >= 8 {
		f.Seq = binary.BigEndian.Uint32(mfhd.Body[4:])
	} else {
		return nil, fmt.Errorf("no mfhd")
	}
	trafB := Find(ch, "traf")
	if trafB == nil {
		return nil, fmt.Errorf("no traf")
	}
	tc, err := Boxes(trafB.Body)
	if err != nil {
		return nil, fmt.Errorf("traf: %w", err)
	}
	defDur, defSize, defFlags := trex.DefDur, trex.DefSize, trex.DefFlags
	if tfhd := Find(tc, "tfhd"); tfhd != nil {
		fl := binary.BigEndian.Uint32(tfhd.Body[0:]) & 0xffffff
		f.TrackID = binary.BigEndian.Uint32(tfhd.Body[4:])
		p := 8
		if fl&0x1 != 0 {
			p += 8
		}
		if fl&0x2 != 0 {
			p += 4
		}
		if fl&0x8 != 0 {
			defDur = binary.BigEndian.Uint32(tfhd.Body[p:])
			p += 4
		}
		if fl&0x10 != 0 {
			defSize = binary.BigEndian.Uint32(tfhd.Body[p:])
			p += 4
		}
		if fl&0x20 != 0 {
			defFlags = binary.BigEndian.Uint32(tfhd.Body[p:])
		}
	} else {
		return nil, fmt.Errorf("no tfhd")
	}
	if tfdt := Find(tc, "tfdt"); tfdt != nil {
		f.TfdtV = int(tfdt.Body[0])
		if f.TfdtV == 1 {
			f.Tfdt = binary.BigEndian.Uint64(tfdt.Body[4:])
		} else {
			f.Tfdt = uint64(binary.BigEndian.Uint32(tfdt.Body[4:]))
		}
	} else {
		return nil, fmt.Errorf("no tfdt")
	}
	if Find(tc, "senc") != nil {
		f.Senc = true
	}
	if subs := Find(tc, "subs"); subs != nil && len(subs.Body) >= 8 {
		v := subs.Body[0]
		cnt := binary.BigEndian.Uint32(subs.Body[4:])
		p := 8
		if cnt > 0 && p+6 <= len(subs.Body) {
			p += 4
			n := int(binary.BigEndian.Uint16(subs.Body[p:]))
			p += 2
			for i := 0; i < n; i++ {
				if v == 1 {
					f.SubsSizes = append(f.SubsSizes, binary.BigEndian.Uint32(subs.Body[p:]))
					p += 4
				} else {
					f.SubsSizes = append(f.SubsSizes, uint32(binary.BigEndian.Uint16(subs.Body[p:])))
					p += 2
				}
				p += 6
			}
		}
	}
	trun := Find(tc, "trun")
	if trun == nil {
		return nil, fmt.Errorf("no trun")
	}
	tv := trun.Body[0]
	fl := binary.BigEndian.Uint32(trun.Body[0:]) & 0xffffff
	cnt := int(binary.BigEndian.Uint32(trun.Body[4:]))
	p := 8
	if fl&0x1 != 0 {
		f.DataOffset = int32(binary.BigEndian.Uint32(trun.Body[p:]))
		f.HasDataOff = true
		p += 4
	}
	firstFlags := uint32(0)
	hasFirst := fl&0x4 != 0
	if hasFirst {
		firstFlags = binary.BigEndian.Uint32(trun.Body[p:])
		p += 4
	}
	for i := 0; i < cnt; i++ {
		s := Sample{Dur: defDur, Size: defSize, Flags: defFlags}
		if hasFirst && i == 0 {
			s.Flags = firstFlags
		}
		if fl&0x100 != 0 {
			s.Dur = binary.BigEndian.Uint32(trun.Body[p:])
			p += 4
		}
		if fl&0x200 != 0 {
			s.Size = binary.BigEndian.Uint32(trun.Body[p:])
			p += 4
		}
		if fl&0x400 != 0 {
			s.Flags = binary.BigEndian.Uint32(trun.Body[p:])
			p += 4
		}
		if fl&0x800 != 0 {
			s.CTO = int32(binary.BigEndian.Uint32(trun.Body[p:]))
			_ = tv
			p += 4
		}
		f.Samples = append(f.Samples, s)
	}
	return f, nil
}
