package app

// C02 — the live MPD and the segment server agree on what is available.
// E3: configuration product x every breakpoint instant (+-1 ms) x every segment the MPD
// declares, fetched at the same instant.

import (
	"fmt"
	"sort"
	"strings"
	"testing"

	"github.com/Dash-Industry-Forum/livesim2/internal/vshim/vh"
	"github.com/Dash-Industry-Forum/livesim2/internal/vshim/vref"
)

type c02Cfg struct {
	root, asset, mpd string
	mode             string // number | tltime | tlnr
	startKind        string // abs | rel
	start            int64  // abs: seconds; rel: offset
	tsbd             int64
	snr              int
	atoMS            int64 // -1 inf; below -1: a negative offset of that many ms
}

func (c c02Cfg) parts() []string {
	var p []string
	switch c.mode {
	case "tltime":
		p = append(p, "segtimeline_1")
	case "tlnr":
		p = append(p, "segtimelinenr_1")
	}
	if c.snr >= 0 {
		p = append(p, fmt.Sprintf("snr_%d", c.snr))
	}
	if c.startKind == "rel" {
		p = append(p, fmt.Sprintf("startrel_%d", c.start))
	} else if c.start > 0 {
		p = append(p, fmt.Sprintf("start_%d", c.start))
	}
	p = append(p, fmt.Sprintf("tsbd_%d", c.tsbd))
	switch {
	case c.atoMS < -1:
		p = append(p, fmt.Sprintf("ato_-%d.%03d", -c.atoMS/1000, -c.atoMS%1000))
	case c.atoMS < 0:
		p = append(p, "ato_inf")
	case c.atoMS > 0:
		p = append(p, fmt.Sprintf("ato_%d.%03d", c.atoMS/1000, c.atoMS%1000))
	}
	return p
}

func (c c02Cfg) String() string {
	return fmt.Sprintf("%s/%s %s", c.asset, c.mpd, strings.Join(c.parts(), "/"))
}

func c02Round(ms int64) int64 { // ms2S in the statement of startrel: whole seconds, rounded
	return (ms + 500) / 1000
}

func TestVerifC02(t *testing.T) {
	rep := vh.NewReport("C02")
	defer rep.Write()
	quick := vh.Quick()
	roots := []string{vBundledRoot}
	if g := vGenRoot(); g != "" {
		roots = append(roots, g)
		if x := vGenExtraRoot(); x != "" {
			roots = append(roots, x)
		}
	}
	var cfgs []c02Cfg
	for _, root := range roots {
		for _, ap := range vAssetPaths(root) {
			if !vExtraWanted(root, ap, "x_thumbs_1s_before_text", "x_two_video_grids", "x_two_audio", "x_audio_441") {
				continue
			}
			a, err := vAsset(root, ap)
			if err != nil || !a.LoopExact {
				continue
			}
			heavy := strings.HasPrefix(ap, "WAVE")
			segMS := a.LoopMS / int64(len(a.Ref.Segs))
			var names []string
			for n := range a.MPDs {
				names = append(names, n)
			}
			sort.Strings(names)
			for _, mpdName := range names {
				k := 0
				for _, mode := range []string{"number", "tltime", "tlnr"} {
					for _, st := range []struct {
						kind string
						v    int64
					}{{"abs", 0}, {"abs", 900}, {"rel", -20}} {
						for _, tsbd := range []int64{0, 1, 5, 10, 60} {
							for _, snr := range []int{-1, 1, 7} {
								for _, ato := range []int64{0, segMS / 2, segMS + 500, -1, -1000} {
									if ato == -1 && mode != "number" {
										continue
									}
									k++
									if quick || heavy {
										if (k*5+len(mpdName))%23 != 0 {
											continue
										}
									} else if (k+len(mpdName))%3 != 0 {
										continue
									}
									cfgs = append(cfgs, c02Cfg{root: root, asset: ap, mpd: mpdName, mode: mode, startKind: st.kind, start: st.v, tsbd: tsbd, snr: snr, atoMS: ato})
								}
							}
						}
					}
				}
			}
		}
	}
	rep.Extra["configs_total"] = len(cfgs)
	for ci, c := range cfgs {
		if !vh.Mine(ci) {
			continue
		}
		if rep.OutOfBudget() {
			break
		}
		c02RunCfg(rep, c, quick)
	}
}

func c02RunCfg(rep *vh.Report, c c02Cfg, quick bool) {
	srv, err := vServer(c.root)
	if err != nil {
		rep.Violate("C02.setup", "server", err.Error(), nil)
		return
	}
	if _, served := srv.assetMgr.assets[c.asset]; !served {
		return
	}
	a, _ := vAsset(c.root, c.asset)
	v := a.Ref
	N := int64(len(v.Segs))
	prefix := vCfgPrefix(c.parts()...)
	// ---- breakpoint instants
	base := int64(0)
	if c.startKind == "abs" {
		base = c.start * 1000
	} else {
		base = 1_000_000_000 // startrel: AST moves with now; walk an arbitrary region
	}
	set := map[int64]bool{}
	add := func(t int64) {
		if t >= 0 {
			set[t] = true
		}
	}
	ato := c.atoMS
	if ato == -1 {
		ato = 0
	}
	loops := int64(2)
	if !quick {
		loops = 3
	}
	for n := int64(0); n <= loops*N+1; n++ {
		endMS := vref.TicksToMSCeil(v.LiveEnd(n), v.TS)
		for _, T := range []int64{base + endMS - ato, base + endMS - ato + c.tsbd*1000, base + endMS - ato + c.tsbd*1000 + 10000, base + endMS} {
			add(T - 1)
			add(T)
			add(T + 1)
		}
	}
	add(base)
	add(base + 1)
	if c.startKind == "abs" {
		far := int64(1_700_000_000_000)
		fn := (far - base) / (a.LoopMS / N)
		for n := fn; n <= fn+N+1; n++ {
			endMS := vref.TicksToMSCeil(v.LiveEnd(n), v.TS)
			add(base + endMS - ato - 1)
			add(base + endMS - ato)
			add(base + endMS - ato + 1)
		}
	}
	var ts []int64
	for t := range set {
		ts = append(ts, t)
	}
	sort.Slice(ts, func(i, j int) bool { return ts[i] < ts[j] })
	// one interior instant per piece
	var all []int64
	for i, t := range ts {
		all = append(all, t)
		if i+1 < len(ts) && ts[i+1]-t > 2 {
			all = append(all, t+(ts[i+1]-t)/2)
		}
	}
	first := true
	for _, t := range all {
		if c.startKind == "rel" {
			// walk relative to now: AST = round(now/1000) - 20 s; spread "now" over sub-second phases
		}
		c02CheckInstant(rep, srv, a, c, prefix, t)
		rep.AddStates(1)
		if !first {
			rep.AddTrans(1)
		}
		first = false
	}
	rep.Sample(map[string]any{"config": c.String(), "instants": len(all)})
	rep.Outcome(c.asset + "/" + c.mpd + "/" + c.mode)
}

func c02CheckInstant(rep *vh.Report, srv *Server, a *vref.VAsset, c c02Cfg, prefix string, t int64) {
	url := fmt.Sprintf("%s/%s/%s?nowMS=%d", prefix, c.asset, c.mpd, t)
	tag := ""
	if vTimeOffsetAsset(c.asset) {
		tag = ":vod-time-offset"
	}
	viol := func(clause, sig, msg, u string) {
		rep.Violate(clause, sig+tag, fmt.Sprintf("%s t=%d: %s", c, t, msg), map[string]any{"mpd_url": url, "url": u})
	}
	resp := vGet(srv, url)
	rep.AddExecs(1)
	wantAST := c.start * 1000
	if c.startKind == "rel" {
		wantAST = (c02Round(t) + c.start) * 1000
	}
	if t < wantAST {
		return // before stream start: no MPD is promised
	}
	if resp.Code != 200 {
		if resp.vCrashed() {
			site, val := vPanicSite(srv.livesimHandlerFunc, "GET", url, nil)
			viol("C02.mpd", "panic:"+site, "MPD handler crashed: "+val, url)
		} else if c.atoMS < -1 && resp.Code >= 400 && resp.Code < 500 && len(resp.Body) > 0 {
			// a negative availabilityTimeOffset may be refused as a configuration (then nothing is declared);
			// if it is accepted, the MPD and the segment side must agree on it like on any other value
			rep.Hit("C02.refused-config")
		} else {
			viol("C02.mpd", fmt.Sprintf("mpd-status-%d", resp.Code), fmt.Sprintf("MPD status %d %q", resp.Code, vTrim(resp.Body)), url)
		}
		return
	}
	m, err := vref.ParseMPD(resp.Body)
	if err != nil {
		viol("C02.mpd", "mpd-unparsable", err.Error(), url)
		return
	}
	ast, err := vref.DateMS(m.AvailabilityStartTime)
	if err != nil {
		viol("C02.mpd", "ast-unparsable", err.Error(), url)
		return
	}
	rep.Hit("C02.ast")
	if ast != wantAST {
		viol("C02.ast", "ast-value", fmt.Sprintf("availabilityStartTime %d ms, want %d ms", ast, wantAST), url)
		return
	}
	tsbdMS := int64(-1)
	if m.TimeShiftBufferDepth != "" {
		tsbdMS, _ = vref.DurMS(m.TimeShiftBufferDepth)
	}
	rel := t - ast
	fetch := func(segURL string) vResp {
		rep.AddExecs(1)
		return vGet(srv, fmt.Sprintf("%s/%s/%s?nowMS=%d", prefix, c.asset, segURL, t))
	}
	// ---- explicit (SegmentTimeline) declarations
	segs, err := m.TimelineSegs()
	if err != nil {
		viol("C02.d", "timeline-bad", err.Error(), url)
		return
	}
	byRep := map[string][]vref.DeclSeg{}
	var order []string
	for _, s := range segs {
		if _, ok := byRep[s.RepID]; !ok {
			order = append(order, s.RepID)
		}
		byRep[s.RepID] = append(byRep[s.RepID], s)
	}
	for _, id := range order {
		r := a.Reps[id]
		if r == nil {
			continue
		}
		list := byRep[id]
		for i, d := range list {
			// (d) contiguity is implied by the expansion unless an explicit t disagrees
			if i > 0 && d.Time != list[i-1].Time+list[i-1].Dur {
				viol("C02.d", "timeline-gap:"+r.Kind, fmt.Sprintf("rep %s entry %d starts at %d, previous ends at %d", id, i, d.Time, list[i-1].Time+list[i-1].Dur), url)
			}
			rs := fetch(d.URL)
			rep.Hit("C02.a")
			if rs.Code != 200 {
				viol("C02.a", fmt.Sprintf("listed-%d:%s:%s", rs.Code, r.Kind, c.mode), fmt.Sprintf("rep %s: listed segment %s (t=%d d=%d nr=%d, %d of %d) answered %d %q", id, d.URL, d.Time, d.Dur, d.Nr, i, len(list), rs.Code, vTrim(rs.Body)), d.URL)
				continue
			}
			sg, err := vref.ParseSegment(rs.Body, r.Init.Trex)
			if err != nil {
				viol("C02.b", "unparsable:"+r.Kind, fmt.Sprintf("rep %s %s: %v", id, d.URL, err), d.URL)
				continue
			}
			rep.Hit("C02.b")
			if sg.Start() != d.Time || sg.Dur() != d.Dur {
				viol("C02.b", "time-dur:"+r.Kind+":"+c.mode, fmt.Sprintf("rep %s %s: served (tfdt=%d dur=%d), MPD declares (t=%d d=%d)", id, d.URL, sg.Start(), sg.Dur(), d.Time, d.Dur), d.URL)
			}
			if d.HasNr && int64(sg.Frags[0].Seq) != d.Nr {
				viol("C02.b", "number:"+r.Kind+":"+c.mode, fmt.Sprintf("rep %s %s: served sequence number %d, MPD declares %d", id, d.URL, sg.Frags[0].Seq, d.Nr), d.URL)
			}
		}
		// (c) the segment after the live edge is too early
		if len(list) > 0 {
			last := list[len(list)-1]
			as := m.Periods[last.Period].AS[last.AS]
			var rr *vref.Rep
			for i := range as.Reps {
				if as.Reps[i].ID == id {
					rr = &as.Reps[i]
				}
			}
			st := as.Template(rr)
			next := vref.ExpandURL(st.Media, id, rr.Bandwidth, last.Nr+1, last.Time+last.Dur)
			rs := fetch(next)
			rep.Hit("C02.c")
			if rs.Code != 425 {
				viol("C02.c", fmt.Sprintf("after-edge-%d:%s:%s", rs.Code, r.Kind, c.mode), fmt.Sprintf("rep %s: segment after the live edge %s answered %d", id, next, rs.Code), next)
			}
		}
		// (e) last entry = newest ended segment; (f) first entry inside the window
		refRep := r
		if r.Kind == "audio" {
			refRep = a.Ref
		}
		atoMS := c.atoMS
		nLast := refRep.LastEnded(rel, atoMS)
		rep.Hit("C02.e")
		if nLast < 0 {
			if len(list) != 0 {
				viol("C02.e", "nonempty-before-first:"+r.Kind, fmt.Sprintf("rep %s: %d entries listed although no segment has ended", id, len(list)), url)
			}
			continue
		}
		if len(list) == 0 {
			viol("C02.e", "empty-timeline:"+r.Kind, fmt.Sprintf("rep %s: empty timeline although segment index %d has ended", id, nLast), url)
			continue
		}
		wantLast := refRep.LiveStart(nLast)
		if r.Kind == "audio" {
			wantLast = vref.AudioBoundary(wantLast, a.Ref.TS, r.TS, r.FrameDur)
		}
		if got := list[len(list)-1].Time; got != wantLast {
			viol("C02.e", "last-entry:"+r.Kind+":"+c.mode, fmt.Sprintf("rep %s: last entry t=%d, newest ended segment (index %d) starts at %d", id, got, nLast, wantLast), url)
		}
		if tsbdMS >= 0 {
			rep.Hit("C02.f")
			f := list[0]
			// not older than the window allows: the first entry may be the last segment that had ended
			// when the window started, so its end lies less than the longest segment duration of the
			// (reference) representation before the window start
			var maxDur uint64
			for _, sgm := range refRep.Segs {
				if d := vref.CeilMulDiv(sgm.Dur(), f.TS, refRep.TS); d > maxDur {
					maxDur = d
				}
			}
			if r.Kind == "audio" {
				maxDur += uint64(r.FrameDur)
			}
			if vref.TicksToMSCeil(f.Time+f.Dur+maxDur, f.TS) <= rel-tsbdMS && f.Time != 0 {
				viol("C02.f", "first-too-old:"+r.Kind+":"+c.mode, fmt.Sprintf("rep %s: first entry (t=%d d=%d ts=%d) ended more than one (longest) segment before the window start %d ms", id, f.Time, f.Dur, f.TS, rel-tsbdMS), url)
			}
		}
	}
	// ---- implicit ($Number$ template with duration) declarations
	for pi := range m.Periods {
		for ai := range m.Periods[pi].AS {
			as := &m.Periods[pi].AS[ai]
			for ri := range as.Reps {
				rr := &as.Reps[ri]
				st := as.Template(rr)
				if st == nil || st.Timeline != nil || st.Duration == nil || !strings.Contains(st.Media, "$Number$") {
					continue
				}
				r := a.Reps[rr.ID]
				if r == nil {
					continue
				}
				c02Implicit(rep, a, r, c, st, rr, rel, tsbdMS, fetch, viol, url)
			}
		}
	}
}

func c02Implicit(rep *vh.Report, a *vref.VAsset, r *vref.VRep, c c02Cfg, st *vref.SegTemplate, rr *vref.Rep, rel, tsbdMS int64,
	fetch func(string) vResp, viol func(clause, sig, msg, u string), mpdURL string) {
	ts := st.TS()
	d := *st.Duration
	sn := int64(1)
	if st.StartNumber != nil {
		sn = int64(*st.StartNumber)
	}
	atoMS := int64(0)
	inf := false
	switch st.AvailabilityTimeOffset {
	case "":
	case "INF", "inf", "Inf", "+Inf":
		inf = true
	default:
		var f float64
		if _, err := fmt.Sscanf(st.AvailabilityTimeOffset, "%g", &f); err == nil {
			atoMS = int64(f*1000 + 0.5)
		}
	}
	// newest index k (0-based) with (k+1)*d/ts*1000 - ato <= rel
	var kLast int64 = -1
	if inf {
		kLast = int64(vref.FloorMulDiv(uint64(rel+1000*3600), ts, 1000*d)) // everything is available; probe around "now"
		kLast = int64(vref.FloorMulDiv(uint64(rel), ts, 1000*d))
	} else if rel+atoMS >= 0 {
		kLast = int64(vref.FloorMulDiv(uint64(rel+atoMS), ts, 1000*d)) - 1
	}
	// tolerance between nominal and served start (property: exact for constant durations)
	constant := true
	refRep := r
	if r.Kind == "audio" {
		refRep = a.Ref
		constant = false
	}
	for _, s := range refRep.Segs {
		if s.Dur()*ts != d*refRep.TS {
			constant = false
		}
	}
	var tolTicks uint64 // in MPD timescale
	if !constant {
		// maximum deviation of the real start from the nominal grid over one loop, plus one audio frame
		N := int64(len(refRep.Segs))
		for n := int64(0); n <= N; n++ {
			real := vref.FloorMulDiv(refRep.LiveStart(n), ts, refRep.TS)
			nom := uint64(n) * d
			dev := real - nom
			if nom > real {
				dev = nom - real
			}
			if dev > tolTicks {
				tolTicks = dev
			}
		}
		if r.Kind == "audio" {
			tolTicks += vref.CeilMulDiv(uint64(r.FrameDur), ts, r.TS)
		}
		tolTicks++
		// if the nominal grid drifts against the loop (N*d != loop) no bound exists: nothing can be claimed
		if uint64(N)*d*refRep.TS != refRep.LoopTicks()*ts {
			rep.Hit("C02.drifting-template-skipped")
			return
		}
	}
	tolMS := int64(vref.CeilMulDiv(tolTicks, 1000, ts))
	if !constant && !inf {
		// within the duration variation: only segments whose nominal end lies at least tol in the past must be there
		if rel+atoMS-tolMS >= 0 {
			kLast = int64(vref.FloorMulDiv(uint64(rel+atoMS-tolMS), ts, 1000*d)) - 1
		} else {
			kLast = -1
		}
	}
	if kLast < 0 {
		rs := fetch(vref.ExpandURL(st.Media, rr.ID, rr.Bandwidth, sn, 0))
		rep.Hit("C02.c")
		if rs.Code != 425 && !inf && constant {
			viol("C02.c", fmt.Sprintf("after-edge-%d:%s:number", rs.Code, r.Kind), fmt.Sprintf("rep %s: first segment answered %d before it is available", rr.ID, rs.Code), mpdURL)
		}
		return
	}
	// oldest index still inside the window: end(k) + tsbd >= rel
	kFirst := int64(0)
	if tsbdMS >= 0 && rel-tsbdMS+tolMS > 0 {
		kFirst = int64(vref.CeilMulDiv(uint64(rel-tsbdMS+tolMS), ts, 1000*d)) - 1
		if kFirst < 0 {
			kFirst = 0
		}
	}
	if kFirst > kLast && !constant {
		kFirst = kLast + 1 // nothing is guaranteed inside the tolerance
	}
	if kFirst > kLast && constant {
		kFirst = kLast
	}
	for k := kFirst; k <= kLast; k++ {
		u := vref.ExpandURL(st.Media, rr.ID, rr.Bandwidth, sn+k, 0)
		rs := fetch(u)
		rep.Hit("C02.a")
		if rs.Code != 200 {
			viol("C02.a", fmt.Sprintf("listed-%d:%s:number", rs.Code, r.Kind), fmt.Sprintf("rep %s: segment %s (index %d of [%d,%d]) implied available by startNumber=%d duration=%d/%d answered %d %q", rr.ID, u, k, kFirst, kLast, sn, d, ts, rs.Code, vTrim(rs.Body)), u)
			continue
		}
		if r.Kind == "image" {
			continue
		}
		sg, err := vref.ParseSegment(rs.Body, r.Init.Trex)
		if err != nil {
			viol("C02.b", "unparsable:"+r.Kind, fmt.Sprintf("rep %s %s: %v", rr.ID, u, err), u)
			continue
		}
		rep.Hit("C02.b")
		if int64(sg.Frags[0].Seq) != sn+k {
			viol("C02.b", "number:"+r.Kind+":number", fmt.Sprintf("rep %s %s: sequence number %d want %d", rr.ID, u, sg.Frags[0].Seq, sn+k), u)
		}
		served := vref.FloorMulDiv(sg.Start(), ts, r.TS)
		nominal := uint64(k) * d
		if constant {
			if sg.Start()*ts != nominal*r.TS || sg.Dur()*ts != d*r.TS {
				viol("C02.b", "time-dur:"+r.Kind+":number", fmt.Sprintf("rep %s %s: served (tfdt=%d dur=%d ts=%d), template implies (t=%d d=%d ts=%d)", rr.ID, u, sg.Start(), sg.Dur(), r.TS, nominal, d, ts), u)
			}
		} else if tolTicks != ^uint64(0) {
			dev := served - nominal
			if nominal > served {
				dev = nominal - served
			}
			if dev > tolTicks {
				viol("C02.b", "time-dev:"+r.Kind+":number", fmt.Sprintf("rep %s %s: served start %d deviates %d from nominal %d (tolerance %d, timescale %d)", rr.ID, u, served, dev, nominal, tolTicks, ts), u)
			}
		}
	}
	if !inf {
		u := vref.ExpandURL(st.Media, rr.ID, rr.Bandwidth, sn+kLast+1, 0)
		rs := fetch(u)
		rep.Hit("C02.c")
		// with variable durations the real segment may end earlier than the nominal grid says
		if rs.Code != 425 && constant {
			viol("C02.c", fmt.Sprintf("after-edge-%d:%s:number", rs.Code, r.Kind), fmt.Sprintf("rep %s: segment after the live edge %s answered %d", rr.ID, u, rs.Code), u)
		}
	}
}
