package vrt

import (
	"cmp"
	"iter"
	"slices"
	"sync/atomic"
)

// Map iteration order is a source of nondeterminism the harness owns.
const (
	MapNative  = iota // Go's randomised order (default outside harnesses)
	MapSorted         // ascending keys
	MapChoice         // sorted, rotated / reversed by an environment choice (one deviation)
	MapReverse        // descending keys
)

var mapMode atomic.Int32

// SetMapMode selects how rewritten `range m` statements iterate.
func SetMapMode(m int) { mapMode.Store(int32(m)) }

// MapRanges counts map range statements executed (vacuity guard).
var MapRanges atomic.Int64

func MapIter[M ~map[K]V, K cmp.Ordered, V any](m M) iter.Seq2[K, V] {
	mode := mapMode.Load()
	if mode == MapNative {
		return func(yield func(K, V) bool) {
			for k, v := range m {
				if !yield(k, v) {
					return
				}
			}
		}
	}
	return func(yield func(K, V) bool) {
		MapRanges.Add(1)
		keys := make([]K, 0, len(m))
		for k := range m {
			keys = append(keys, k)
		}
		slices.Sort(keys)
		n := len(keys)
		if mode == MapReverse {
			slices.Reverse(keys)
		} else if mode == MapChoice && n > 1 && Active() {
			// alternatives: n rotations, then n rotations of the reversed order
			c := Choose(2*n, "maporder")
			if c >= n {
				slices.Reverse(keys)
				c -= n
			}
			keys = append(keys[c:], keys[:c]...)
		}
		for _, k := range keys {
			v, ok := m[k]
			if !ok {
				continue
			}
			if !yield(k, v) {
				return
			}
		}
	}
}
