package app

// C19 — the ingest receiver tolerates concurrent uploads.
// E1: 2-3 threads, each doing the first upload(s) of a distinct track of a new / existing channel
// or of different channels; every interleaving up to the preemption bound over the receiver's lock,
// channel-send and goroutine-spawn operations; vector-clock race detection on the hooked fields.
// Oracle: one channel object per name, all tracks registered, final state equals the final state of
// some sequential order of the same uploads.

import (
	"bytes"
	"context"
	"crypto/sha1"
	"fmt"
	"os"
	"path/filepath"
	"sort"
	"strings"
	"testing"
	"time"

	"github.com/Dash-Industry-Forum/livesim2/internal/vshim/vh"
	"github.com/Dash-Industry-Forum/livesim2/internal/vshim/vrt"
)

type c19Upload struct {
	ch, track, name string // name: "init" or segment index
	body            []byte
	ext             string
	noAuth          bool // sent without credentials (a protected channel answers 401 and stores nothing)
}

type c19Scenario struct {
	name    string
	cfg     *Config
	prior   []c19Upload   // uploaded sequentially before the threads start
	threads [][]c19Upload // one list per thread
	stall   bool          // media bodies arrive in two parts (a scheduling point before the media data)
	restart bool          // the receiver is restarted after the prior uploads: the channel exists on disk only (init_org files)
	user    string
	pswd    string
}

func c19Path(u c19Upload) string {
	return fmt.Sprintf("/upload/%s/%s/%s%s", u.ch, u.track, u.name, u.ext)
}

// c19Digest summarises the observable final state.
func c19Digest(rc *Receiver, storage string) string {
	var b strings.Builder
	var files []string
	_ = filepath.Walk(storage, func(p string, info os.FileInfo, err error) error {
		if err == nil && !info.IsDir() {
			rel, _ := filepath.Rel(storage, p)
			data, _ := os.ReadFile(p)
			files = append(files, fmt.Sprintf("%s:%x", rel, sha1.Sum(data)))
		}
		return nil
	})
	sort.Strings(files)
	fmt.Fprintf(&b, "files=%v\n", files)
	var chNames []string
	for n := range rc.channelMgr.channels {
		chNames = append(chNames, n)
	}
	sort.Strings(chNames)
	for _, n := range chNames {
		ch := rc.channelMgr.channels[n]
		var tds []string
		for k := range ch.trDatas {
			tds = append(tds, k)
		}
		sort.Strings(tds)
		var mpdBuf bytes.Buffer
		_, _ = ch.mpd.Write(&mpdBuf, " ", false)
		fmt.Fprintf(&b, "channel %s: trDatas=%v trIDs=%v master=%s mpd=%x\n", n, tds, ch.trIDs, ch.masterTrName, sha1.Sum(mpdBuf.Bytes()))
	}
	var st []string
	for k := range rc.streams {
		st = append(st, k)
	}
	sort.Strings(st)
	fmt.Fprintf(&b, "streams=%v\n", st)
	return b.String()
}

func TestVerifC19(t *testing.T) {
	rep := vh.NewReport("C19")
	defer rep.Write()
	quick := vh.Quick()
	tracks, err := rLoadTracks()
	if err != nil {
		t.Fatalf("testdata: %v", err)
	}
	sh, nsh := vh.Shard()
	root, err := rScratch(fmt.Sprintf("c19-%d", sh))
	if err != nil {
		t.Fatalf("scratch: %v", err)
	}
	defer os.RemoveAll(root)
	up := func(ch, tr, name string) c19Upload {
		t := tracks[tr]
		u := c19Upload{ch: ch, track: tr, name: name, ext: t.ext}
		if name == "init" {
			u.body = t.init
		} else {
			var i int
			fmt.Sscanf(name, "%d", &i)
			u.body = t.segs[i]
		}
		return u
	}
	v, v2, a, tx := "video-500Kbps", "video-800Kbps", "audio-nor-128Kbps", "text-nor-0"
	scenarios := []c19Scenario{
		{name: "new-channel-2-inits", threads: [][]c19Upload{{up("ch1", v, "init")}, {up("ch1", a, "init")}}},
		{name: "new-channel-3-inits", threads: [][]c19Upload{{up("ch1", v, "init")}, {up("ch1", a, "init")}, {up("ch1", tx, "init")}}},
		{name: "new-channel-init+media", threads: [][]c19Upload{{up("ch1", v, "init"), up("ch1", v, "0")}, {up("ch1", a, "init"), up("ch1", a, "0")}}},
		{name: "two-channels", threads: [][]c19Upload{{up("ch1", v, "init"), up("ch1", v, "0")}, {up("ch2", v, "init"), up("ch2", v, "0")}}},
		{name: "existing-channel", prior: []c19Upload{up("ch1", v, "init")}, threads: [][]c19Upload{{up("ch1", v, "0")}, {up("ch1", a, "init")}, {up("ch1", v2, "init")}}},
		{name: "auth", cfg: &Config{Channels: []ChannelConfig{{Name: "ch1", AuthUser: "u", AuthPswd: "p", Reps: []RepresentationConfig{{Name: a, Language: "se", Bitrate: 64000}}}}}, user: "u", pswd: "p",
			threads: [][]c19Upload{{up("ch1", v, "init")}, {up("ch1", a, "init")}}},
		{name: "two-existing-channels", prior: []c19Upload{up("ch1", v, "init"), up("ch2", v, "init"), up("ch3", a, "init")},
			threads: [][]c19Upload{{up("ch1", v, "0")}, {up("ch2", v, "0")}, {up("ch3", a, "0")}}},
		{name: "same-track-two-segments", prior: []c19Upload{up("ch1", v, "init"), up("ch1", v, "0")}, threads: [][]c19Upload{{up("ch1", v, "1")}, {up("ch1", v, "2")}}},
		// a protected channel that is new to the receiver: an upload without credentials overlaps the first authorized ones
		{name: "auth-with-intruder", cfg: &Config{Channels: []ChannelConfig{{Name: "ch1", AuthUser: "u", AuthPswd: "p"}}}, user: "u", pswd: "p",
			threads: [][]c19Upload{{func() c19Upload { x := up("ch1", v, "init"); x.noAuth = true; return x }()}, {up("ch1", v, "init"), up("ch1", v, "0")}, {up("ch1", a, "init")}}},
		{name: "same-track-partial-bodies", stall: true, prior: []c19Upload{up("ch1", v, "init"), up("ch1", v, "0")}, threads: [][]c19Upload{{up("ch1", v, "1")}, {up("ch1", v, "2")}}},
		{name: "restarted-same-track", restart: true, prior: []c19Upload{up("ch1", v, "init"), up("ch1", a, "init"), up("ch1", v, "0")}, threads: [][]c19Upload{{up("ch1", v, "1")}, {up("ch1", v, "2")}}},
		{name: "restarted-init+media", restart: true, prior: []c19Upload{up("ch1", v, "init"), up("ch1", v, "0")}, threads: [][]c19Upload{{up("ch1", v, "init")}, {up("ch1", v, "1")}}},
		// raw mode (no parsing, files are numbered by arrival): overlapping uploads of one track, and of two tracks
		{name: "raw-mode-same-track", cfg: &Config{Channels: []ChannelConfig{{Name: "ch1", ReceiveNrRawSegments: 10}}}, threads: [][]c19Upload{{up("ch1", v, "1")}, {up("ch1", v, "2")}}},
		{name: "raw-mode-two-tracks", cfg: &Config{Channels: []ChannelConfig{{Name: "ch1", ReceiveNrRawSegments: 10}}}, threads: [][]c19Upload{{up("ch1", v, "1"), up("ch1", v, "2")}, {up("ch1", a, "1")}}},
		{name: "media-of-two-tracks", prior: []c19Upload{up("ch1", v, "init"), up("ch1", a, "init")}, threads: [][]c19Upload{{up("ch1", v, "0"), up("ch1", v, "1")}, {up("ch1", a, "0"), up("ch1", a, "1")}}},
	}
	bound := 2
	if !quick {
		bound = 3
	}
	rep.Bound = bound
	caseNr := 0
	t0 := time.Now().Unix()
	// scenarios are distributed over the worker processes: worker k handles scenario k mod S and
	// explores sub-shard k div S of that scenario's schedule tree
	nScen := len(scenarios)
	subShards := (nsh + nScen - 1) / nScen
	// ---- burst at the channel-start instant (explored before the scenarios, so that it never runs out of the time budget)
	// ---- burst at the channel-start instant: more uploads than the channel's queue holds (10 messages)
	// arrive while the channel goroutine is busy with the master track's second segment. Explored
	// under both canonical thread orders (ascending and descending ids), because a background
	// goroutine that was started first runs first by default and would never fall behind.
	if sh == nsh-1 || nsh == 1 {
		prior := []c19Upload{up("ch1", v, "init"), up("ch1", a, "init"), up("ch1", tx, "init"), up("ch1", v, "0")}
		threads := [][]c19Upload{{up("ch1", v, "1")}, {up("ch1", a, "0"), up("ch1", a, "1"), up("ch1", a, "2")}, {up("ch1", tx, "0"), up("ch1", tx, "1"), up("ch1", tx, "2")}}
		body := func(s *vrt.Sched) {
			caseNr++
			storage := fmt.Sprintf("%s/b%d", root, caseNr)
			_ = os.MkdirAll(storage, 0o755)
			defer os.RemoveAll(storage)
			ctx, cancel := context.WithCancel(context.Background())
			defer cancel()
			rc, h, err := rNewReceiver(ctx, storage, nil, 30)
			if err != nil {
				s.Fail("setup", err.Error())
				return
			}
			do := func(u c19Upload) {
				r := rPut(h, c19Path(u), u.body, true, "", "")
				if r.crashed() {
					site, val := rPanicSite(rc, c19Path(u), u.body)
					if val != "{}" {
						s.Fail("C19.crash:panic:"+site, fmt.Sprintf("%s: %s", c19Path(u), val))
					}
				} else if r.Code != 200 {
					s.Fail(fmt.Sprintf("C19.lost:status-%d:burst", r.Code), fmt.Sprintf("%s answered %d %q", c19Path(u), r.Code, string(r.Body)))
				}
			}
			for _, u := range prior {
				do(u)
			}
			s.Quiesce()
			var hs []*vrt.Handle
			for ti, us := range threads {
				us := us
				hs = append(hs, s.Spawn(fmt.Sprintf("burst%d", ti), func() {
					for _, u := range us {
						do(u)
					}
				}))
			}
			s.Join(hs...)
			s.Quiesce()
		}
		bb := 1
		if !quick {
			bb = 2
		}
		for _, rev := range []bool{false, true} {
			x := vrt.Explore(vrt.ExploreOpts{RunOpts: vrt.RunOpts{AllowBlockedDaemons: true, Race: true, WatchdogS: 60, Horizon: 200000, NoUnlockPoints: true, ReverseOrder: rev},
				Bound: bb, MaxExec: 200000, DeadlineUnix: rep.DeadlineUnix(), FreeCost: 1}, body)
			rep.AddExecs(int64(x.Executions))
			rep.AddStates(int64(x.Points))
			rep.AddTrans(int64(x.Points))
			rep.Extra[fmt.Sprintf("executions_burst_reverse_%v", rev)] = x.Executions
			for _, c := range x.CapsHit {
				rep.Cap("burst:" + c)
			}
			for _, f := range x.Failures {
				if strings.HasPrefix(f.Sig, "engine:") || f.Sig == "setup" {
					t.Fatalf("engine/setup error: %s %s", f.Sig, f.Msg)
				}
				clause, sig := "C19.crash", f.Sig+":burst"
				switch {
				case strings.HasPrefix(f.Sig, "race:"):
					clause, sig = "C19.race", f.Sig
				case strings.HasPrefix(f.Sig, "C19."):
					p := strings.SplitN(f.Sig, ":", 2)
					clause, sig = p[0], p[1]
				}
				rep.Violate(clause, sig, f.Msg, map[string]any{"scenario": "burst-at-channel-start", "reverse_order": rev, "schedule": f.Choices})
			}
		}
	}
	for si, sc := range scenarios {
		sc := sc
		if only := os.Getenv("VERIF_C19_ONLY"); only != "" && sc.name != only { // debugging aid: one scenario with the whole budget
			continue
		}
		if nsh > 1 && sh%nScen != si {
			continue
		}
		mySub := sh / nScen
		if nsh == 1 {
			mySub, subShards = 0, 1
		}
		if mySub >= subShards {
			continue
		}
		deadline := rep.DeadlineUnix()
		_ = t0
		// run one execution: order == nil -> concurrent threads; else the uploads of all threads sequentially in that thread order
		var lastDigest string
		var lastChannels int
		mk := func(seqOrder []int) func(s *vrt.Sched) {
			return func(s *vrt.Sched) {
				caseNr++
				storage := fmt.Sprintf("%s/x%d", root, caseNr)
				_ = os.MkdirAll(storage, 0o755)
				defer os.RemoveAll(storage)
				ctx, cancel := context.WithCancel(context.Background())
				defer cancel()
				cfg := sc.cfg
				rc, h, err := rNewReceiver(ctx, storage, cfg, 30)
				if err != nil {
					s.Fail("setup", err.Error())
					return
				}
				do := func(u c19Upload) {
					var r rResp
					user, pswd := sc.user, sc.pswd
					if u.noAuth {
						user, pswd = "", ""
					}
					if sc.stall && u.name != "init" {
						r = rPutStalled(h, c19Path(u), u.body, user, pswd)
					} else {
						r = rPut(h, c19Path(u), u.body, true, user, pswd)
					}
					if u.noAuth {
						if r.Code != 401 {
							s.Fail(fmt.Sprintf("C19.lost:unauthorized-status-%d", r.Code), fmt.Sprintf("%s without credentials answered %d", c19Path(u), r.Code))
						}
						return
					}
					if r.crashed() {
						site, val := rPanicSite(rc, c19Path(u), u.body)
						if val != "{}" {
							s.Fail("C19.crash:panic:"+site, fmt.Sprintf("%s: %s", c19Path(u), val))
						}
					} else if r.Code != 200 {
						s.Fail(fmt.Sprintf("C19.lost:status-%d", r.Code), fmt.Sprintf("%s answered %d %q", c19Path(u), r.Code, string(r.Body)))
					}
				}
				for _, u := range sc.prior {
					do(u)
				}
				s.Quiesce()
				if sc.restart {
					// a new receiver process on the same storage: tracks are restored from init_org.* when first used
					cancel()
					s.Quiesce()
					ctx2, cancel2 := context.WithCancel(context.Background())
					defer cancel2()
					rc, h, err = rNewReceiver(ctx2, storage, cfg, 30)
					if err != nil {
						s.Fail("setup", err.Error())
						return
					}
				}
				if seqOrder == nil {
					var hs []*vrt.Handle
					for ti, us := range sc.threads {
						us := us
						hs = append(hs, s.Spawn(fmt.Sprintf("uploader%d", ti), func() {
							for _, u := range us {
								do(u)
							}
						}))
					}
					s.Join(hs...)
				} else {
					// seqOrder lists thread indices; the k-th occurrence of a thread is its k-th upload
					next := make([]int, len(sc.threads))
					for _, ti := range seqOrder {
						do(sc.threads[ti][next[ti]])
						next[ti]++
						// no wait here: the channel goroutine processes uploads asynchronously, so a
						// sequential client may have sent the next upload before the previous one is processed
					}
				}
				s.Quiesce()
				lastChannels = s.DaemonCount()
				lastDigest = c19Digest(rc, storage)
				s.Observe(fmt.Sprintf("%x", sha1.Sum([]byte(lastDigest))))
			}
		}
		// sequential reference outcomes: every permutation of the threads
		seqOutcomes := map[string]string{}
		// every sequential order of the uploads that keeps each thread's own order (all merges)
		var perms [][]int
		var merge func(cur []int, next []int)
		merge = func(cur []int, next []int) {
			done := true
			for ti := range sc.threads {
				if next[ti] < len(sc.threads[ti]) {
					done = false
					next[ti]++
					merge(append(cur, ti), next)
					next[ti]--
				}
			}
			if done {
				perms = append(perms, append([]int{}, cur...))
			}
		}
		merge(nil, make([]int, len(sc.threads)))
		wantChannels := 0
		for _, p := range perms {
			// every schedule of the (single) uploader against the channel goroutine(s)
			b := mk(p)
			x := vrt.Explore(vrt.ExploreOpts{RunOpts: vrt.RunOpts{AllowBlockedDaemons: true, WatchdogS: 60, NoUnlockPoints: true}, Bound: 3, MaxExec: 1500}, func(s *vrt.Sched) {
				b(s)
				seqOutcomes[fmt.Sprintf("%x", sha1.Sum([]byte(lastDigest)))] = lastDigest
				wantChannels = lastChannels
			})
			for _, f := range x.Failures {
				rep.Violate("C19.seq", "sequential-run-failed:"+sc.name+":"+f.Sig, f.Msg, map[string]any{"scenario": sc.name, "order": p})
			}
			rep.AddExecs(int64(x.Executions))
		}
		body := mk(nil)
		checked := func(s *vrt.Sched) {
			body(s)
			rep.Hit("C19.c")
			if _, ok := seqOutcomes[fmt.Sprintf("%x", sha1.Sum([]byte(lastDigest)))]; !ok {
				msg := "final state differs from the final state of every sequential order:\n" + lastDigest
				for _, d := range seqOutcomes {
					msg += "--- a sequential outcome:\n" + d
				}
				s.Fail("C19.c:not-a-sequential-outcome:"+sc.name, msg)
			}
			rep.Hit("C19.a")
			if lastChannels != wantChannels {
				s.Fail("C19.a:channel-objects:"+sc.name, fmt.Sprintf("%d channel goroutines were started, sequential runs start %d", lastChannels, wantChannels))
			}
		}
		// iterate the bound: 0, 1, ... ; the highest bound completed within the budget is reported
		var st *vrt.Stats
		completed := -1
		for b := 0; b <= bound; b++ {
			x := vrt.Explore(vrt.ExploreOpts{RunOpts: vrt.RunOpts{AllowBlockedDaemons: true, Race: true, WatchdogS: 60, Horizon: 100000, NoUnlockPoints: true},
				Bound: b, Shard: mySub, NShards: subShards, MaxExec: 400000, DeadlineUnix: deadline}, checked)
			if st == nil || x.Exhaustive {
				st = x
			} else {
				st.Failures = append(st.Failures, x.Failures...)
				st.CapsHit = append(st.CapsHit, x.CapsHit...)
				st.Executions += x.Executions
				st.Points += x.Points
			}
			if !x.Exhaustive {
				break
			}
			completed = b
		}
		if completed < bound {
			rep.Cap(fmt.Sprintf("%s: bound %d completed (wanted %d)", sc.name, completed, bound))
		}
		if rep.Bound > completed {
			rep.Bound = completed
		}
		rep.AddExecs(int64(st.Executions))
		rep.AddStates(int64(st.Points))
		rep.AddTrans(int64(st.Points))
		rep.Hit("C19.race")
		for o, n := range st.Outcomes {
			rep.Outcomes[sc.name+"/"+o] += n
		}
		for _, c := range st.CapsHit {
			rep.Cap(sc.name + ":" + c)
		}
		rep.Extra["executions_"+sc.name] = st.Executions
		if len(st.SampleSchedules) > 0 {
			rep.Sample(map[string]any{"scenario": sc.name, "schedule": st.SampleSchedules[len(st.SampleSchedules)-1], "sequential_outcomes": len(seqOutcomes)})
		}
		for _, f := range st.Failures {
			if strings.HasPrefix(f.Sig, "engine:") {
				t.Fatalf("engine error: %s %s", f.Sig, f.Msg)
			}
			clause, sig := "C19.c", f.Sig
			switch {
			case strings.HasPrefix(f.Sig, "race:"):
				clause = "C19.race"
			case strings.HasPrefix(f.Sig, "C19."):
				p := strings.SplitN(f.Sig, ":", 2)
				clause, sig = p[0], p[1]
			case strings.HasPrefix(f.Sig, "panic:"), f.Sig == "deadlock":
				clause = "C19.crash"
			}
			rep.Violate(clause, sig, f.Msg, map[string]any{"scenario": sc.name, "schedule": f.Choices})
		}
	}
}
