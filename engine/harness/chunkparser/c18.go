package chunkparser

// C18 — chunk parser output does not depend on how the bytes arrive.
//
// The io.Reader is an environment whose every answer (how many bytes, EOF together
// with the last data or separately, an error) is a vrt choice. For small synthetic
// streams every answer sequence is explored (all fragmentations); for realistic
// streams every answer sequence with at most k deviations from "return everything
// asked". Oracles are evaluated on every execution against a reference box walk.

import (
	"bytes"
	"encoding/binary"
	"errors"
	"fmt"
	"io"
	"os"
	"sort"
	"strings"
	"testing"
	"time"

	"github.com/Dash-Industry-Forum/livesim2/internal/vshim/vh"
	"github.com/Dash-Industry-Forum/livesim2/internal/vshim/vrt"
)

type c18Box struct {
	typ  string
	size int
}

func c18Stream(boxes []c18Box) []byte {
	var b []byte
	for i, bx := range boxes {
		h := make([]byte, 8)
		binary.BigEndian.PutUint32(h, uint32(bx.size))
		copy(h[4:], bx.typ)
		b = append(b, h...)
		for k := 8; k < bx.size; k++ {
			b = append(b, byte(0x40+i*16+k))
		}
	}
	return b
}

// reference walk: mdat end offsets and moov header end offsets of a well-formed (possibly truncated) stream
func c18Ref(data []byte) (mdatEnds []int, moovHdrEnds []int) {
	pos := 0
	for pos+8 <= len(data) {
		size := int(binary.BigEndian.Uint32(data[pos:]))
		typ := string(data[pos+4 : pos+8])
		if typ == "moov" {
			moovHdrEnds = append(moovHdrEnds, pos+8)
		}
		if size < 8 {
			break
		}
		if typ == "mdat" && pos+size <= len(data) {
			mdatEnds = append(mdatEnds, pos+size)
		}
		pos += size
	}
	return
}

type c18Reader struct {
	data      []byte
	pos       int
	mode      string // "free": every answer explored; "dev": deviations from full answer; "full"; "one"
	errAt     int    // Read call index at which to fail (-1 none)
	calls     int
	eofSep    bool // in non-choice modes: deliver EOF separately
	delivered int
}

var errInjected = errors.New("injected read error")

func (r *c18Reader) Read(p []byte) (int, error) {
	idx := r.calls
	r.calls++
	if r.errAt >= 0 && idx == r.errAt {
		return 0, errInjected
	}
	rem := len(r.data) - r.pos
	if rem == 0 {
		return 0, io.EOF
	}
	if len(p) == 0 {
		return 0, nil
	}
	max := len(p)
	if rem < max {
		max = rem
	}
	n := max
	withEOF := false
	switch r.mode {
	case "free":
		// alternatives: n = max, max-1, ..., 1  (default = everything asked)
		n = max - vrt.ChooseFree(max, "read-n")
		if n == rem {
			withEOF = vrt.ChooseFree(2, "eof-with-data") == 1
		}
	case "free1":
		// every answer size, each non-default answer costs one deviation
		n = max - vrt.Choose(max, "read-n")
		if n == rem {
			withEOF = vrt.Choose(2, "eof-with-data") == 1
		}
	case "dev":
		// default: everything asked; deviations: 1 byte, half, all-but-one
		alts := []int{max}
		for _, a := range []int{1, max / 2, max - 1} {
			if a >= 1 && a < max {
				dup := false
				for _, b := range alts {
					if a == b {
						dup = true
					}
				}
				if !dup {
					alts = append(alts, a)
				}
			}
		}
		n = alts[vrt.Choose(len(alts), "read-n")]
		if n == rem {
			withEOF = vrt.Choose(2, "eof-with-data") == 1
		}
	case "one":
		n = 1
		withEOF = !r.eofSep && n == rem
	case "zero1", "zero64":
		// every other call returns (0, nil): legal for an io.Reader ("discouraged"), seen with
		// non-blocking sources; the calls in between return 1 / up to 64 bytes
		if idx%2 == 0 {
			return 0, nil
		}
		n = 1
		if r.mode == "zero64" && max > 1 {
			n = max
			if n > 64 {
				n = 64
			}
		}
		withEOF = !r.eofSep && n == rem
	default:
		withEOF = !r.eofSep && n == rem
	}
	copy(p, r.data[r.pos:r.pos+n])
	r.pos += n
	r.delivered = r.pos
	if withEOF {
		return n, io.EOF
	}
	return n, nil
}

type c18CB struct {
	start     uint32
	init      bool
	data      []byte
	delivered int
}

type c18Case struct {
	name       string
	data       []byte
	bufSize    int
	mode       string
	eofSep     bool
	errAt      int
	cbErrAt    int
	cbErr      error // what the failing callback returns (nil = errCB)
	wellFormed bool
}

var errCB = errors.New("injected callback error")

// runCase executes Parse once (inside a vrt execution when choices are used) and checks the oracles.
func c18Run(c c18Case, fail func(sig, msg string), rep *vh.Report) string {
	rd := &c18Reader{data: c.data, mode: c.mode, errAt: c.errAt, eofSep: c.eofSep}
	var cbs []c18CB
	cbErr := c.cbErr
	if cbErr == nil {
		cbErr = errCB
	}
	cb := func(cd ChunkData) error {
		if c.cbErrAt >= 0 && len(cbs) == c.cbErrAt {
			cbs = append(cbs, c18CB{start: cd.Start, init: cd.IsInitSegment, data: append([]byte{}, cd.Data...), delivered: rd.delivered})
			return cbErr
		}
		cbs = append(cbs, c18CB{start: cd.Start, init: cd.IsInitSegment, data: append([]byte{}, cd.Data...), delivered: rd.delivered})
		return nil
	}
	p := NewMP4ChunkParser(rd, make([]byte, c.bufSize), cb)
	err := p.Parse()
	// ---- error propagation
	if c.errAt >= 0 && rd.calls > c.errAt {
		rep.Hit("C18.err")
		if !errors.Is(err, errInjected) {
			fail("C18.err:read-error-lost", fmt.Sprintf("%s: reader failed at call %d, Parse returned %v", c.name, c.errAt, err))
		}
		return "readerr"
	}
	if c.cbErrAt >= 0 && len(cbs) > c.cbErrAt {
		rep.Hit("C18.err")
		if err != cbErr && !errors.Is(err, cbErr) {
			fail("C18.err:callback-error-lost", fmt.Sprintf("%s: callback %d failed with %v, Parse returned %v", c.name, c.cbErrAt, cbErr, err))
		}
		if len(cbs) != c.cbErrAt+1 {
			fail("C18.err:callback-after-error", fmt.Sprintf("%s: %d callbacks after failing callback", c.name, len(cbs)-c.cbErrAt-1))
		}
		return "cberr"
	}
	if !c.wellFormed {
		return fmt.Sprintf("corrupt:%d:%v", len(cbs), err)
	}
	if err != nil {
		fail("C18.concat:unexpected-error", fmt.Sprintf("%s: Parse returned %v", c.name, err))
		return "err"
	}
	// ---- concatenation and offsets
	rep.Hit("C18.concat")
	var cat []byte
	for i, x := range cbs {
		if int(x.start) != len(cat) {
			fail("C18.start:offset", fmt.Sprintf("%s: callback %d Start=%d, %d bytes delivered before", c.name, i, x.start, len(cat)))
		}
		cat = append(cat, x.data...)
	}
	if !bytes.Equal(cat, c.data) {
		k := 0
		for k < len(cat) && k < len(c.data) && cat[k] == c.data[k] {
			k++
		}
		kind := "differs"
		if len(cat) < len(c.data) && k == len(cat) {
			kind = "short"
		} else if len(cat) > len(c.data) && k == len(c.data) {
			kind = "long"
		}
		fail("C18.concat:"+kind, fmt.Sprintf("%s: concatenated callbacks (%d bytes) != input (%d bytes), first difference at %d", c.name, len(cat), len(c.data), k))
		return "bad"
	}
	// ---- chunk placement: one callback ending at every complete mdat, made when exactly
	// those bytes had been taken from the reader
	mdatEnds, moovEnds := c18Ref(c.data)
	rep.Hit("C18.place")
	ends := map[int]int{}
	off := 0
	for i, x := range cbs {
		off += len(x.data)
		ends[off] = i
		if len(x.data) == 0 {
			fail("C18.place:empty-callback", fmt.Sprintf("%s: callback %d is empty", c.name, i))
		}
	}
	for _, e := range mdatEnds {
		i, ok := ends[e]
		if !ok {
			fail("C18.place:no-callback-at-mdat-end", fmt.Sprintf("%s: no callback ends at mdat end %d (callback ends %v)", c.name, e, ends))
			continue
		}
		if cbs[i].delivered != e {
			fail("C18.place:late-callback", fmt.Sprintf("%s: callback for mdat end %d made after %d bytes were read", c.name, e, cbs[i].delivered))
		}
	}
	isMdatEnd := map[int]bool{}
	for _, e := range mdatEnds {
		isMdatEnd[e] = true
	}
	for e, i := range ends {
		if !isMdatEnd[e] && e != len(c.data) {
			fail("C18.place:callback-not-at-mdat-end", fmt.Sprintf("%s: callback %d ends at %d which is neither an mdat end nor end of input", c.name, i, e))
		}
	}
	// ---- init flag
	rep.Hit("C18.init")
	off = 0
	for i, x := range cbs {
		off += len(x.data)
		want, ambiguous := false, false
		for _, m := range moovEnds {
			if m <= off {
				want = true
				// a moov *header* that ends exactly where the (truncated) input ends: whether the
				// box counts as "seen" is not defined by the statement; either answer is accepted
				if m == len(c.data) {
					ambiguous = true
				}
			}
		}
		if x.init != want && !ambiguous {
			fail("C18.init:flag", fmt.Sprintf("%s: callback %d IsInitSegment=%v, moov header seen=%v", c.name, i, x.init, want))
		}
	}
	return fmt.Sprintf("ok:%d", len(cbs))
}

// c18Guard runs f with a watchdog; returns false if it did not return in time.
func c18Guard(f func()) bool {
	done := make(chan struct{})
	go func() { defer close(done); f() }()
	select {
	case <-done:
		return true
	case <-time.After(20 * time.Second):
		return false
	}
}

func TestVerifC18(t *testing.T) {
	rep := vh.NewReport("C18")
	defer rep.Write()
	quick := vh.Quick()
	item := 0
	mine := func() bool { item++; return vh.Mine(item) }

	small := map[string][]c18Box{
		"moov+mdat":           {{"moov", 8}, {"mdat", 10}},
		"moof+mdat":           {{"moof", 8}, {"mdat", 9}},
		"mdat+mdat":           {{"mdat", 8}, {"mdat", 8}},
		"styp+moof+mdat":      {{"styp", 8}, {"moof", 8}, {"mdat", 9}},
		"ftyp+moov":           {{"ftyp", 8}, {"moov", 9}},
		"mdat+free":           {{"mdat", 9}, {"free", 8}},
		"moof+mdat+moof+mdat": {{"moof", 8}, {"mdat", 8}, {"moof", 8}, {"mdat", 8}},
	}
	if quick {
		delete(small, "moof+mdat+moof+mdat")
	}
	hungOnce := false
	dev := 2
	if !quick {
		dev = 3
	}
	rep.Bound = dev
	explore := func(c c18Case, bound int, maxExec int) {
		var lastOutcome string
		body := func(s *vrt.Sched) {
			lastOutcome = c18Run(c, func(sig, msg string) { s.Fail(sig, msg) }, rep)
			s.Observe(lastOutcome)
		}
		if hungOnce {
			rep.Cap("skipped-after-hang:" + c.name)
			return
		}
		st := vrt.Explore(vrt.ExploreOpts{RunOpts: vrt.RunOpts{Horizon: 100000, WatchdogS: 20}, Bound: bound, MaxExec: maxExec}, body)
		if st.Hung {
			hungOnce = true
			for _, f := range st.Failures {
				if f.Sig == "hang" {
					rep.Violate("C18.term", "hang:wellformed:"+strings.SplitN(c.name, "/", 2)[0], "Parse did not return within 20 s for "+c.name, map[string]any{"case": c.name, "choices": f.Choices, "stream_hex": fmt.Sprintf("%x", c18Trunc(c.data, 64))})
				}
			}
			return
		}
		rep.AddExecs(int64(st.Executions))
		rep.AddStates(int64(st.Points) + int64(st.Executions))
		rep.AddTrans(int64(st.Points))
		for o, n := range st.Outcomes {
			rep.Outcomes[o] += n
		}
		for _, cp := range st.CapsHit {
			rep.Cap(c.name + ":" + cp)
		}
		for _, f := range st.Failures {
			if strings.HasPrefix(f.Sig, "engine:") {
				t.Fatalf("engine error %s: %s", f.Sig, f.Msg)
			}
			clause := strings.SplitN(f.Sig, ":", 2)[0]
			if strings.HasPrefix(f.Sig, "panic:") {
				clause = "C18.term"
			}
			// reproduce 5x
			n := 0
			for k := 0; k < 5; k++ {
				x := vrt.Run(f.Choices, vrt.RunOpts{Horizon: 100000}, body)
				for _, g := range x.Fails {
					if g.Sig == f.Sig {
						n++
						break
					}
				}
			}
			if n != 5 {
				t.Fatalf("engine error: %s reproduced %d/5", f.Sig, n)
			}
			rep.Violate(clause, f.Sig, f.Msg, map[string]any{"case": c.name, "bufSize": c.bufSize, "choices": f.Choices, "stream_hex": fmt.Sprintf("%x", c18Trunc(c.data, 64))})
		}
		if len(st.SampleSchedules) > 0 {
			rep.Sample(map[string]any{"case": c.name, "executions": st.Executions, "read_answers": st.SampleSchedules[len(st.SampleSchedules)-1]})
		}
	}

	// (i) small streams: all fragmentations, several initial buffer sizes; all truncations
	for _, name := range c18SortedKeys(small) { // sorted: every worker must see the same sequence of cases
		boxes := small[name]
		data := c18Stream(boxes)
		for _, bs := range []int{0, 1, 8, len(data), 1024} {
			if !mine() {
				continue
			}
			mode, bnd := "free", 0
			if len(data) > 18 {
				mode, bnd = "free1", dev+1
			}
			explore(c18Case{name: fmt.Sprintf("small/%s/buf%d", name, bs), data: data, bufSize: bs, mode: mode, errAt: -1, cbErrAt: -1, wellFormed: true}, bnd, 3_000_000)
		}
		// every truncation, every initial buffer size, full + one-byte readers, EOF together / separately
		for cut := 0; cut < len(data); cut++ {
			if !mine() {
				continue
			}
			for bs := 0; bs <= len(data)+2; bs++ {
				for _, mode := range []string{"full", "one"} {
					for _, sep := range []bool{false, true} {
						c := c18Case{name: fmt.Sprintf("trunc/%s/cut%d/buf%d/%s/sep%v", name, cut, bs, mode, sep), data: data[:cut], bufSize: bs, mode: mode, eofSep: sep, errAt: -1, cbErrAt: -1, wellFormed: true}
						o := c18Run(c, func(sig, msg string) {
							rep.Violate(strings.SplitN(sig, ":", 2)[0], sig, msg, map[string]any{"case": c.name, "stream_hex": fmt.Sprintf("%x", c.data)})
						}, rep)
						rep.Outcome(o)
						rep.AddExecs(1)
						rep.AddStates(1)
						rep.AddTrans(1)
					}
				}
			}
			// truncated + free fragmentation for short prefixes
			if cut <= 14 {
				explore(c18Case{name: fmt.Sprintf("truncfree/%s/cut%d", name, cut), data: data[:cut], bufSize: 4, mode: "free", errAt: -1, cbErrAt: -1, wellFormed: true}, 0, 1_000_000)
			}
		}
		// (vi) injected reader / callback errors at every index
		if mine() {
			for e := 0; e < len(data)+2; e++ {
				for _, mode := range []string{"full", "one"} {
					c := c18Case{name: fmt.Sprintf("readerr/%s/%d/%s", name, e, mode), data: data, bufSize: 16, mode: mode, errAt: e, cbErrAt: -1, wellFormed: true}
					rep.Outcome(c18Run(c, func(sig, msg string) {
						rep.Violate(strings.SplitN(sig, ":", 2)[0], sig, msg, map[string]any{"case": c.name})
					}, rep))
					rep.AddExecs(1)
					rep.AddStates(1)
					rep.AddTrans(1)
				}
			}
			// the callback's error is the caller's own value: the parser's own end-of-input values are among them
			for ei, ce := range []error{errCB, io.EOF, io.ErrUnexpectedEOF, fmt.Errorf("sink closed: %w", io.EOF)} {
				for e := 0; e < 4; e++ {
					for _, mode := range []string{"full", "one"} {
						c := c18Case{name: fmt.Sprintf("cberr/%s/%d/err%d/%s", name, e, ei, mode), data: data, bufSize: 16, mode: mode, errAt: -1, cbErrAt: e, cbErr: ce, wellFormed: true}
						rep.Outcome(c18Run(c, func(sig, msg string) {
							rep.Violate(strings.SplitN(sig, ":", 2)[0], sig, msg, map[string]any{"case": c.name})
						}, rep))
						rep.AddExecs(1)
						rep.AddStates(1)
						rep.AddTrans(1)
					}
				}
			}
		}
	}

	// (ii) realistic streams: bundled init + chunked media, <= k deviations
	vinit, err1 := os.ReadFile("testdata/video_init.mp4")
	ainit, err2 := os.ReadFile("testdata/audio_init.mp4")
	media, err3 := os.ReadFile("testdata/3_chunked.m4s")
	if err1 != nil || err2 != nil || err3 != nil {
		t.Fatalf("testdata missing: %v %v %v", err1, err2, err3)
	}
	real := map[string][]byte{
		"video_init":      vinit,
		"audio_init":      ainit,
		"chunked":         media,
		"init+chunked":    append(append([]byte{}, vinit...), media...),
		"chunked+chunked": append(append([]byte{}, media...), media...),
	}
	// synthetic streams with size coincidences between consecutive chunks: a non-mdat box of the
	// next chunk (or a trailing box) ends at the offset at which the previous chunk ended
	for n, bx := range map[string][]c18Box{
		"coinc/mdat8+moof8+mdat8":                {{"mdat", 8}, {"moof", 8}, {"mdat", 8}},
		"coinc/moof8+mdat12+moof20+mdat10":       {{"moof", 8}, {"mdat", 12}, {"moof", 20}, {"mdat", 10}},
		"coinc/moof8+mdat8+free16":               {{"moof", 8}, {"mdat", 8}, {"free", 16}},
		"coinc/moof10+mdat30+styp8+moof32+mdat9": {{"moof", 10}, {"mdat", 30}, {"styp", 8}, {"moof", 32}, {"mdat", 9}},
	} {
		real[n] = c18Stream(bx)
	}
	for _, name := range c18SortedKeys(real) {
		data := real[name]
		// buffers that leave more than 1 KiB unused when they have to grow, as well
		bufs := []int{0, 1, 7, 8, 9, 1024, 2048, 4096, 16384, len(data) / 2, len(data) - 1, len(data), len(data) + 1}
		if quick {
			bufs = []int{0, 9, 1024, 4096, len(data)}
		}
		for _, bs := range bufs {
			if !mine() {
				continue
			}
			explore(c18Case{name: fmt.Sprintf("real/%s/buf%d", name, bs), data: data, bufSize: bs, mode: "dev", errAt: -1, cbErrAt: -1, wellFormed: true}, dev, 2_000_000)
		}
		if mine() {
			// one byte at a time, and truncation at every box boundary +-1 and in the middle of every box
			for _, sep := range []bool{false, true} {
				for _, zm := range []string{"zero1", "zero64"} {
					cz := c18Case{name: "realzero/" + zm + "/" + name, data: data, bufSize: 16, mode: zm, eofSep: sep, errAt: -1, cbErrAt: -1, wellFormed: true}
					rep.Outcome(c18Run(cz, func(sig, msg string) {
						rep.Violate(strings.SplitN(sig, ":", 2)[0], sig, msg, map[string]any{"case": cz.name})
					}, rep))
					rep.AddExecs(1)
					rep.AddStates(1)
					rep.AddTrans(1)
				}
				c := c18Case{name: "real1/" + name, data: data, bufSize: 16, mode: "one", eofSep: sep, errAt: -1, cbErrAt: -1, wellFormed: true}
				rep.Outcome(c18Run(c, func(sig, msg string) {
					rep.Violate(strings.SplitN(sig, ":", 2)[0], sig, msg, map[string]any{"case": c.name})
				}, rep))
				rep.AddExecs(1)
				rep.AddStates(1)
				rep.AddTrans(1)
			}
			var cuts []int
			pos := 0
			for pos+8 <= len(data) {
				size := int(binary.BigEndian.Uint32(data[pos:]))
				for _, d := range []int{-1, 0, 1, 4, 7, 8, 9, size / 2} {
					if pos+d >= 0 && pos+d < len(data) {
						cuts = append(cuts, pos+d)
					}
				}
				pos += size
			}
			for _, cut := range cuts {
				for _, mode := range []string{"full", "one"} {
					c := c18Case{name: fmt.Sprintf("realtrunc/%s/cut%d/%s", name, cut, mode), data: data[:cut], bufSize: 1024, mode: mode, errAt: -1, cbErrAt: -1, wellFormed: true}
					rep.Outcome(c18Run(c, func(sig, msg string) {
						rep.Violate(strings.SplitN(sig, ":", 2)[0], sig, msg, map[string]any{"case": c.name})
					}, rep))
					rep.AddExecs(1)
					rep.AddStates(1)
					rep.AddTrans(1)
				}
			}
		}
	}

	// (v) impossible sizes in every box position: termination (loop horizon under vrt, no
	// wall-clock verdict), no panic. Cases in which a parser that blindly follows size fields
	// would be told to buffer more than 64 MiB are left out (resource use, not termination).
	sizes := []uint32{0, 1, 2, 4, 7, 8, 9, 1 << 24}
	corruptBase := map[string][]c18Box{}
	for k, v := range small {
		corruptBase[k] = v
	}
	corruptBase["zero+mdat"] = []c18Box{{"\x00\x00\x00\x00", 8}, {"mdat", 10}}
	for _, name := range c18SortedKeys(corruptBase) {
		boxes := corruptBase[name]
		if !mine() {
			continue
		}
		base := c18Stream(boxes)
		for k := range base { // zero filler so that misaligned size reads stay small
			if k%1 == 0 && base[k] >= 0x40 && base[k] < 0xc0 && !c18InHeader(boxes, k) {
				base[k] = 0
			}
		}
		pos := 0
		for bi, bx := range boxes {
			rem := uint32(len(base) - pos)
			// sizes whose sum with the box position wraps around 2^32 (to the stream start, to the
			// next box, to this box itself)
			wrap := []uint32{-uint32(pos), 8 - uint32(pos), uint32(bx.size) - uint32(pos)}
			if pos == 0 {
				wrap = nil
			}
			for _, sz := range append(append(append([]uint32{}, sizes...), rem+1, rem-1), wrap...) {
				data := append([]byte{}, base...)
				binary.BigEndian.PutUint32(data[pos:], sz)
				if c18NaiveMax(data) > 1<<26 {
					rep.HitN("C18.term.skipped-large", 1)
					continue
				}
				for _, mode := range []string{"full", "one"} {
					c := c18Case{name: fmt.Sprintf("size/%s/box%d/size%d/%s", name, bi, sz, mode), data: data, bufSize: 8, mode: mode, errAt: -1, cbErrAt: -1, wellFormed: false}
					var outcome string
					x := vrt.Run(nil, vrt.RunOpts{LoopHorizon: 100000, WatchdogS: 120}, func(sch *vrt.Sched) {
						outcome = c18Run(c, func(sig, msg string) {}, rep)
					})
					rep.Outcome(outcome)
					rep.Hit("C18.term")
					rep.AddExecs(1)
					rep.AddStates(1)
					rep.AddTrans(1)
					cls := "ge8"
					if sz < 8 {
						cls = "lt8"
					} else if sz > 1<<31 {
						cls = "wraps"
					}
					for _, f := range x.Fails {
						switch {
						case f.Sig == "livelock" || f.Sig == "hang":
							rep.Violate("C18.term", "hang:box-size-"+cls, fmt.Sprintf("Parse does not terminate for a box with size %d (%s): %s", sz, c.name, f.Msg), map[string]any{"case": c.name, "stream_hex": fmt.Sprintf("%x", data)})
						case strings.HasPrefix(f.Sig, "panic:"):
							rep.Violate("C18.term", "panic:box-size-"+cls+":"+f.Sig[6:], fmt.Sprintf("Parse panics for %s: %s", c.name, f.Msg), map[string]any{"case": c.name, "stream_hex": fmt.Sprintf("%x", data)})
						}
					}
					if x.Hung {
						t.Logf("abandoning corrupted-size cases after a hang outside rewritten code")
						rep.Cap("hang-outside-rewritten-code")
						return
					}
				}
			}
			pos += bx.size
		}
	}
}

func c18InHeader(boxes []c18Box, k int) bool {
	pos := 0
	for _, b := range boxes {
		if k >= pos && k < pos+8 {
			return true
		}
		pos += b.size
	}
	return false
}

// c18NaiveMax follows size fields blindly (as a parser without any validation would)
// and returns the largest size it meets.
func c18NaiveMax(data []byte) uint32 {
	var max uint32
	pos := uint32(0)
	for steps := 0; steps < 1000 && int(pos)+8 <= len(data); steps++ {
		size := binary.BigEndian.Uint32(data[pos:])
		if size == 0 {
			break
		}
		pos += size // 32-bit arithmetic, as in the parser: what it will ask its buffer to hold
		if pos > max {
			max = pos
		}
	}
	return max
}

func c18Trunc(b []byte, n int) []byte {
	if len(b) > n {
		return b[:n]
	}
	return b
}

// c18SortedKeys: map iteration order differs between worker processes; the division of cases
// over the workers needs one order.
func c18SortedKeys[V any](m map[string]V) []string {
	ks := make([]string, 0, len(m))
	for k := range m {
		ks = append(ks, k)
	}
	sort.Strings(ks)
	return ks
}
