# per-property configuration for bin/vcheck
PROPS = {
    "C20": {
        "parts": [{"pkg": "livesim", "test": "TestVerifC20", "shards": {"quick": 8, "thorough": 16}},
                  {"pkg": "livesim", "test": "TestVerifRaceC20", "race": True, "race_clause": "C20.race", "shards": {"quick": 2, "thorough": 4}, "budget_s": {"quick": 60, "thorough": 300}}],
        "clauses": ["C20.lin", "C20.quota", "C20.race", "C20.seq"],
        "level": "model_checking",
        "rule": "every schedule (preemption bound 2 quick / 3 thorough) of 2-3 client threads + reader (+ clock tick) "
                "through the real limiter middleware; every Inc sequence to depth 5/6 over 3 addresses x 3 time steps; scenarios also cover one address spelt in several ways, IPv4-mapped addresses, overlapping white-list blocks, an X-Forwarded-For list, the limiter log file",
        "assumptions": ["an X-Forwarded-For list names the client in its first entry (as the header is defined); addresses are compared as addresses, not as text", "goroutines are serialised by the vrt scheduler; scheduling points at mutex operations and harness request boundaries",
                        "data races are decided by a vector-clock detector on rewritten struct-field accesses",
                        "porcupine v1.3.0 decides linearizability of each recorded history"],
    },
    "C18": {
        "parts": [{"pkg": "chunkparser", "test": "TestVerifC18", "shards": {"quick": 12, "thorough": 16}}],
        "clauses": ["C18.concat", "C18.place", "C18.init", "C18.err", "C18.term"],
        "level": "model_checking",
        "rule": "io.Reader answers are explorer choices: every fragmentation of 6-7 small synthetic box streams x initial buffer sizes, "
                "every truncation x every buffer size, every injected error position, realistic init/chunked streams with <=2/3 "
                "deviations from the full answer, impossible size fields in every box position; callback errors of several identities (sentinel, io.EOF, io.ErrUnexpectedEOF, wrapped EOF), empty reads",
        "assumptions": ["streams are built from the bundled chunkparser testdata and synthetic 8-10 byte boxes",
                        "termination is decided by a 20 s watchdog on operations that take microseconds"],
    },
    "C01": {
        "parts": [{"pkg": "livesim", "test": "TestVerifC01", "gen": True}],
        "clauses": ["C01.a", "C01.b", "C01.c", "C01.d", "C01.e", "C01.f", "C01.g"],
        "level": "model_checking",
        "rule": "assets (bundled + generated layouts incl. trex/tfhd mismatch, two video grids, own-duration thumbnails, tfhd+trun sample sizes) x {video, stpp text/image, thumbnail} representations x {Number, Timeline-Time, Timeline-Number} x snr {unset,1,7} "
                "x start {0,900,1.7e9} x every segment index n in [0,3N+2], around the first 64-bit tfdt, and [K,K+2N+2] with K ~ 1.7e9 s; "
                "each segment fetched at its availability instant + 1 ms and compared with an independent parse of the VoD files "
                "(samples by payload hash; stpp documents byte for byte outside their timestamps)",
        "assumptions": ["time is explored through segment indices (the server is a pure function of URL and nowMS)",
                        "reference = own box walker over the VoD files; no livesim2 code in the oracle"],
    },
    "C04": {
        "parts": [{"pkg": "livesim", "test": "TestVerifC04", "gen": True}],
        "clauses": ["C04.mono", "C04.pre", "C04.early", "C04.body", "C04.avail", "C04.404"],
        "level": "model_checking",
        "rule": "per (asset, representation incl. audio, Number/Time addressing, start {0,900,1.7e9}, tsbd {0,1,60,172800}, ato {0,1/4,1/2,seg+1,inf}, snr {unset,1,7}, "
                "segment index over > 1 loop + far from epoch): sorted sweep of instants, every ms within +-4 (quick) / +-50 (thorough) of both transitions, "
                "against the 425->200->410 automaton with exact rational transition instants; quick uses a covering subset of the configuration product",
        "assumptions": ["for audio the availability instant may lie anywhere between the end of the reference video segment and the end of the audio segment (< 1 frame)",
                        "the 425 body may state floor or ceil of the remaining milliseconds",
                        "segment numbers are 32 bits (mfhd sequence_number): the automaton is walked for numbers below 2^32; a number above is no segment (404) and in particular no alias of its low 32 bits",
                        "before availabilityStartTime the 425 body may count down to the stream start or to the segment's own availability"],
    },
    "C03": {
        "parts": [{"pkg": "livesim", "test": "TestVerifC03", "gen": True}],
        "clauses": ["C03.a", "C03.b", "C03.c", "C03.d", "C03.e", "C03.f"],
        "level": "model_checking",
        "rule": "every audio representation (AAC 1024, AC-3 1536; bundled + generated grids, audio loop shorter/longer than video) x {Number, Time} x (snr,start) {default,(7,900)} "
                "x every n over the audio/video phase cycle (period computed exactly, capped at 64/2048 loops) + 2 loops far from the epoch; "
                "reference: F(x)=ceil(x*tsA/(tsV*frame))*frame in exact arithmetic, frame identity by payload hash against the VoD frames",
        "assumptions": ["reference video representation = first video representation in id order"],
    },
    "C02": {
        "parts": [{"pkg": "livesim", "test": "TestVerifC02", "gen": True}],
        "clauses": ["C02.ast", "C02.a", "C02.b", "C02.c", "C02.e", "C02.f"],
        "level": "model_checking",
        "rule": "assets x MPDs x {Number, Timeline-Time, Timeline-Number} x {start_0,start_900,startrel_-20} x tsbd {0,1,5,10,60} x snr {unset,1,7} x ato {0,1/2 seg,seg+0.5,inf} "
                "(quick: covering subset of the product) x every breakpoint instant +-1 ms over 2-3 loops after start and 1 loop far from the epoch plus one interior instant per piece; "
                "every segment the MPD declares (explicitly or implicitly) is fetched at the same instant",
        "assumptions": ["MPD read with an own encoding/xml reader, segments with an own box walker",
                        "first-entry clause allows one segment of slack; $Number$ templates: exact for constant durations, within the loop's maximum deviation otherwise"],
    },
    "C05": {
        "parts": [{"pkg": "livesim", "test": "TestVerifC05", "gen": True}],
        "clauses": ["C05.a", "C05.b", "C05.c", "C05.d", "C05.e", "C05.f", "C05.g", "C05.h"],
        "level": "model_checking",
        "rule": "assets x MPDs x {Number, Timeline-Time, Timeline-Number} x ato {0,1/2 seg} x tsbd {10,60,7} x {one period, periods_60} x stop {none, mid-segment, boundary} x start {0,1.7e9}: "
                "sorted walk over every breakpoint instant +-1 ms (segment starts/ends, with/without ato, with/without tsbd, period boundaries, stop) plus one interior instant per piece; "
                "relations on consecutive states and grouping of the whole walk by publishTime",
        "assumptions": ["content change instants are taken from the walk itself (pairs of instants 1 ms apart)"],
    },
    "C08": {
        "parts": [{"pkg": "livesim", "test": "TestVerifC08"}, {"pkg": "receiver", "test": "TestVerifC08R"}, {"pkg": "receiver", "test": "TestVerifC08R2"}],
        "clauses": ["C08.a", "C08.b", "C08.c"],
        "level": "model_checking",
        "rule": "41 URL keys x 15 boundary/malformed values + exemplar singly, every key pair x 4x4 values (quick: every 3rd), named hazardous combinations, "
                "through the full router for 8 endpoints x 3 MPD types; segment-name shapes x representations x extensions; BaseURL indices; methods; /patch, /urlgen, licence POST and /api bodies; "
                "a stepped ingest session for every kind of configuration; asset directories with unusual names; receiver uploads from a box alphabet and well-formed uploads with one child box missing; "
                "each request under the vrt runtime (virtual time, loop horizon)",
        "assumptions": ["a recovered panic is recognised by chi Recoverer's empty 500 and replayed on the handler for its call site",
                        "4xx is demanded only for syntactically malformed values of typed keys and the ranges verifyAndFillConfig documents"],
    },
    "C14": {
        "parts": [{"pkg": "livesim", "test": "TestVerifC14", "gen": True}],
        "clauses": ["C14.status", "C14.traffic", "C14.baseurl"],
        "level": "model_checking",
        "rule": "status codes: cycle {1..13,30,60} x rsq {0..cycle/minSeg+2} x code {404,410,503,599} x rep filter {*, video, audio, two patterns} x every video+audio segment over 2*lcm(cycle,loop) s "
                "x start {0,900} x snr {unset,7} x {Number,Time} on constant- and variable-duration assets (quick: every 4th pattern); "
                "traffic: all 1884 patterns of <= 3 intervals over {u,d,s,h}x{1,2,3} s (quick: every 5th 3-interval pattern), two BaseURLs, every second of two cycles, on the vrt virtual clock; cycles 31 and 120 (longer than the time-shift window), tsbd_10, and subtitles / thumbnails / generated subtitles under every pattern",
        "assumptions": ["a representation filter matches by the representation id", "slow/hang delays are observed on the virtual clock (zero-time computation)"],
    },
    "C13": {
        "parts": [{"pkg": "scte35", "test": "TestVerifC13"}, {"pkg": "livesim", "test": "TestVerifC13H", "gen": True}],
        "clauses": ["C13.sched", "C13.event", "C13.once", "C13.reject", "C13.videoonly", "C13.mpd"],
        "level": "model_checking",
        "rule": "(i) every segment of 27 h of stream time (PTS wrap) x 11 segment durations (1..10 s, 1.92, 2.002, 3.84) x N {1,2,3} through the real CreateEmsgAhead (quick: 1 h + 20 min around the wrap); "
                "(ii) every video/audio/text segment of 6 min after start and 6 min around the PTS wrap over HTTP on bundled + generated assets x N x {Number,Time}; "
                "own splice_info_section parser + MPEG-2 CRC-32; a window at present-day media times; a 10 MHz video timescale",
        "assumptions": ["the carrier may contain the announce instant at either end of its interval"],
    },
    "C06": {
        "parts": [{"pkg": "livesim", "test": "TestVerifC06", "gen": True}],
        "clauses": ["C06.a", "C06.b", "C06.c", "C06.d", "C06.e", "C06.accepted", "C06.rejected"],
        "level": "model_checking",
        "rule": "assets x MPDs x {Number, Timeline-Time, Timeline-Number}: every periods-per-hour value 1..3600 (quick: every 7th) for accept/reject + structure, continuity on/off; "
                "for p in {1,2,4,30,60,120,450,1800} x tsbd {60,10}: walk over instants where period boundary, window edge and segment availability meet (+-1 ms); "
                "oracle: differential against the single-period MPD at the same instant + byte equality of first/last segment per period",
        "assumptions": ["start time and startNumber stay at their defaults (the property's quantifier)", "the must-reject clause is applied to assets with constant video segment duration"],
    },
    "C12": {
        "parts": [{"pkg": "livesim", "test": "TestVerifC12", "gen": True}],
        "clauses": ["C12.a", "C12.b", "C12.c", "C12.d", "C12.e"],
        "level": "model_checking",
        "rule": "assets with whole-second, half-second and 2.002 s segment grids x cue duration {1,100,500,900,999,1000,1001,1500,1800,2000,3000} ms x region {0,1} x {stpp,wvtt} x "
                "{Number, Timeline-Number, Timeline-Time} x start {0,900,1.7e9} x languages alternating x every segment over the cycle after which (segment start mod 1 s) repeats (capped 8/100 loops); "
                "reference: one cue per UTC second intersecting the segment",
        "assumptions": ["a clipped first cue may count its duration from the start of the UTC second or from its own begin",
                        "ms conversion of non-integral video times may round either way"],
    },
    "C10": {
        "parts": [{"pkg": "livesim", "test": "TestVerifC10", "gen": True}],
        "clauses": ["C10.a", "C10.b", "C10.c", "C10.d"],
        "level": "model_checking",
        "rule": "AVC+AAC assets (bundled + generated) x {eccp_cenc, eccp_cbcs, each CPIX package of drm_config_test.json}, every mode visited and revisited in reverse order on one server instance, "
                "x {Number, Timeline-Time, Timeline-Number} x {whole, chunked low-latency on the virtual clock} x video+audio x segment indices over a loop and its wrap (quick: 5 indices); "
                "KID(MPD)==KID(init)==licence kid; decrypt(served)==clear(served); pre-encrypted asset built from livesim2's own eccp_cenc output",
        "assumptions": ["mp4ff's DecryptInit/DecryptSegment is the trusted decryptor", "CPIX keys are read from the XML by the harness itself"],
    },
    "C09": {
        "parts": [{"pkg": "livesim", "test": "TestVerifC09", "gen": True, "budget_s": {"quick": 120, "thorough": 1200}}],
        "clauses": ["C09.a", "C09.b", "C09.c", "C09.d", "C09.e", "C09.f", "C09.g"],
        "level": "model_checking",
        "rule": "video+audio representations x ato {seg-1 sample, 3/4, 1/2, 1/4, 1/8 seg} x {clear, eccp_cenc, eccp_cbcs} x start {0,1.7e9} x segment indices {0,1,N-1,N,7N+1} "
                "x request instants {advertised availability -1/0/+1 ms, every chunk boundary +-1 ms, after the end} x client-stall choices (one Flush may block 300 ms; <=1 deviation, all positions); "
                "handler time bound to the vrt virtual clock, ResponseWriter records the virtual instant of every Write; subtitles, thumbnails and generated subtitles in low-latency mode against whole-segment mode; variable frame rate and 10 MHz timescale layouts",
        "assumptions": ["zero-time computation: only sleeps and client stalls advance the clock", "the chunk end is compared on the millisecond grid of the clock (floor)"],
    },
    "C11": {
        "parts": [{"pkg": "livesim", "test": "TestVerifC11", "gen": True}, {"pkg": "patch", "test": "TestVerifC11D"}],
        "clauses": ["C11.loc", "C11.same", "C11.apply", "C11.diff"],
        "level": "model_checking",
        "rule": "handler level: patch_{10,60} x {Timeline-Time, Timeline-Number} x {one period, periods_60} x tsbd {60,7} x start {0,1.7e9+40} x assets incl. 2.002 s, 1.5 s and 4/8 s segments: "
                "all pairs t1<=t2 of availability instants (+-1 ms) within ttl + 2 segments; diff level: every tree reachable by <=1 (quick) / <=2 (thorough) edits from a family of id-carrying MPD-like trees; "
                "oracle: independent RFC 5261 applier, canonical XML equality; variants with stop_, ato_, a clock offset (timeoffset_) and the other bundled MPDs (thumbnails, subtitles); lexical forms of ttl at the diff level",
        "assumptions": ["an <add> whose selector ends in /@name is read as an attribute addition", "pairs whose MPD(t1) is not the document identified by its publishTime are classified as consequences of the C05 finding (stale-base)"],
    },
    "C15": {
        "parts": [{"pkg": "livesim", "test": "TestVerifC15", "gen": True}],
        "clauses": ["C15.a", "C15.b", "C15.c", "C15.d"],
        "level": "fault_enumeration",
        "rule": "asset layouts (5 bundled + 4 generated, + 2 negative layouts) x write mode x {separate, shared} metadata root x every subset of the cache files present (<=5 files) x "
                "one damaged file: every truncation length (every 16th for files > 2 KiB or quick) + the last 32, one flipped byte at every 16th offset, garbage, plain .json, .gz + stale .json; "
                "each case starts a fresh server and replays the asset's request alphabet; a case is non-trivial when a cache file is missing or damaged",
        "assumptions": ["each asset is copied alone into a scratch VoD root", "responses are compared byte for byte with a scanning server"],
    },
    "C19": {
        "parts": [{"pkg": "receiver", "test": "TestVerifC19", "shards": {"quick": 16, "thorough": 16}, "env": {"GOMAXPROCS": "1"}, "budget_s": {"quick": 60, "thorough": 1500}},
                  {"pkg": "receiver", "test": "TestVerifRaceC19", "race": True, "race_clause": "C19.race", "tiers": ["thorough"], "shards": {"thorough": 4}, "budget_s": {"thorough": 300}}],
        "clauses": ["C19.a", "C19.c", "C19.race"],
        "level": "model_checking",
        "rule": "7 scenarios (2-3 concurrent first uploads of distinct tracks of a new channel, init+media, two channels, existing channel, authentication + per-representation config, media of two tracks): "
                "every interleaving with <= 2 (quick) / 3 (thorough) preemptions over RWMutex, channel send/receive and goroutine spawn operations of the real receiver; "
                "vector-clock race detection on rewritten struct-field accesses; final state compared with the final states of all sequential orders; further scenarios: burst at the channel-start instant under both canonical thread orders, two segments of one track, a receiver restarted on existing storage, raw mode",
        "assumptions": ["file system operations are atomic steps of the running thread", "accesses inside mp4ff / dash-mpd are not hooked (only the receiver's own struct fields are)"],
    },
    "C17": {
        "parts": [{"pkg": "receiver", "test": "TestVerifC17", "env": {"GOMAXPROCS": "1"}}],
        "clauses": ["C17.stored", "C17.window", "C17.mpd", "C17.times", "C17.monotone"],
        "level": "model_checking",
        "rule": "(A) every interleaving (per-track order kept) of [init, m0..m(M-1)] for track sets {v,a}x3, {v,a,text}x2, {v,v2}x3 (thorough adds {v,a,text}x3, {v,v2,a}x3, {v,a}x5) from the empty receiver; "
                "(B) breadth-first search by replay to depth 4/5 after a canonical start-up over upload(track, k), k in {next, next+1, next-1, next+3, next-3} (gaps, duplicates, late and jumping numbers), "
                "states deduplicated by generator counters, buffers, master parameters, file listing and MPD hash; after every upload the channel goroutine runs to quiescence under the vrt scheduler; one track set with every media segment uploaded as two chunks",
        "assumptions": ["media segments beyond the six bundled ones are the bundled ones with rewritten sequence number and decode time", "timeShiftBufferDepth 8 s with 3.84 s segments (window of 4)"],
    },
    "C16": {
        "parts": [{"pkg": "livesim", "test": "TestVerifC16", "env": {"GOMAXPROCS": "1"}}],
        "clauses": ["C16.order", "C16.numbering", "C16.body", "C16.headers", "C16.count", "C16.last", "C16.delete", "C16.race"],
        "level": "model_checking",
        "rule": "for every (configuration, API program) scenario: every thread schedule and receiver-answer sequence with at most 1 (quick) / 2 (thorough) deviations (preemptions + non-200/slow answers) of the real cmafIngesterMgr + REST handlers + session goroutines under the vrt scheduler on the virtual clock; "
                "configurations {Number, SegmentTimeline-time, SegmentTimeline-number} x {per-segment URLs, Streams()} x {plain, imsc1 subtitle tracks, generated stpp subtitles, chunked low-latency} x {no credentials, user+password, user only}; "
                "programs: k steps (k=0..3/4) at several testNowMS, steps with concurrent DELETE, steps with concurrent info calls, two concurrent sessions, real-time with DELETE after 1/5/7.3 s, real-time and step mode with duration 4/6 s; two configurations on the bundled asset with alternating 4 s / 8 s segments (numbers and instants from the reference model)",
        "assumptions": ["the receiver is an in-process http.RoundTripper: it reads the whole body, then answers; TCP-level behaviour of net/http is not modelled", "asset testpic_2s (2 s segments)"],
    },
    "C07": {
        "parts": [{"pkg": "livesim", "test": "TestVerifC07", "env": {"GOMAXPROCS": "1"}},
                  {"pkg": "livesim", "test": "TestVerifRaceC07", "race": True, "race_clause": "C07.race", "tiers": ["thorough"], "budget_s": {"thorough": 600}}],
        "clauses": ["C07.history", "C07.concurrent", "C07.race", "C07.maporder", "C07.instance"],
        "level": "model_checking",
        "rule": "alphabet of ~52 requests (MPD types, init, media incl. re-segmented audio, ECCP/CPIX encrypted, chunked, subtitles, thumbnails, SCTE-35, patch, vod, pages, an ingest session cycle); "
                "H1 explicit-state search over request histories keyed by a deep digest of all state reachable from the asset manager and the server configuration (every request from every reachable state); "
                "H2 every ordered pair on a long-running server against the answer of a fresh server; "
                "S every ordered pair as two threads under the vrt scheduler with scheduling points at locks, pool operations and response writes, at most 1 (quick) / 2 (thorough) deviations, vector-clock race detection on all struct fields of the module; "
                "M every request under sorted, reversed and every single rotated map iteration order; I cache-loaded instance against scanning instance; part N: a VoD root with an asset directory inside another, a sibling whose name extends another, and an MPD with UTCTiming elements of its own - both iteration orders of the asset table, every ordered pair of requests against fresh answers, utc_ requests concurrently; in-place appends to field slices are accesses (vrt.SA)",
        "assumptions": ["the state digest covers what is reachable from Server.assetMgr and Server.Cfg; templates, routers and the limiter are outside it (H2 does not depend on the digest)",
                        "race detection covers struct fields of the module's own types (not the contents of byte slices, which are covered by the response comparison)"],
    },
}
