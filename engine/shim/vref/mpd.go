package vref

import (
	"encoding/xml"
	"fmt"
	"math/big"
	"regexp"
	"strconv"
	"strings"
	"time"
)

// Own MPD reader (encoding/xml), independent of dash-mpd.

type Desc struct {
	SchemeIdUri string `xml:"schemeIdUri,attr"`
	Value       string `xml:"value,attr"`
	DefaultKID  string `xml:"default_KID,attr"`
	Laurl       string `xml:"Laurl"`
	DashifLaurl string `xml:"urn:dashif:org:cpix laurl"`
	Pssh        string `xml:"pssh"`
	Inner       string `xml:",innerxml"`
}

type S struct {
	T *uint64 `xml:"t,attr"`
	D uint64  `xml:"d,attr"`
	R int     `xml:"r,attr"`
}

type SegTemplate struct {
	Media                    string  `xml:"media,attr"`
	Initialization           string  `xml:"initialization,attr"`
	Timescale                *uint64 `xml:"timescale,attr"`
	Duration                 *uint64 `xml:"duration,attr"`
	StartNumber              *uint64 `xml:"startNumber,attr"`
	EndNumber                *uint64 `xml:"endNumber,attr"`
	PTO                      *uint64 `xml:"presentationTimeOffset,attr"`
	AvailabilityTimeOffset   string  `xml:"availabilityTimeOffset,attr"`
	AvailabilityTimeComplete string  `xml:"availabilityTimeComplete,attr"`
	Timeline                 *struct {
		S []S `xml:"S"`
	} `xml:"SegmentTimeline"`
}

func (st *SegTemplate) TS() uint64 {
	if st.Timescale == nil {
		return 1
	}
	return *st.Timescale
}

type Rep struct {
	ID          string       `xml:"id,attr"`
	Bandwidth   int          `xml:"bandwidth,attr"`
	Codecs      string       `xml:"codecs,attr"`
	MimeType    string       `xml:"mimeType,attr"`
	SegTemplate *SegTemplate `xml:"SegmentTemplate"`
}

type AdaptationSet struct {
	ID           string       `xml:"id,attr"`
	ContentType  string       `xml:"contentType,attr"`
	MimeType     string       `xml:"mimeType,attr"`
	Lang         string       `xml:"lang,attr"`
	Codecs       string       `xml:"codecs,attr"`
	SegTemplate  *SegTemplate `xml:"SegmentTemplate"`
	Reps         []Rep        `xml:"Representation"`
	ContentProt  []Desc       `xml:"ContentProtection"`
	InbandEvents []Desc       `xml:"InbandEventStream"`
	Supplemental []Desc       `xml:"SupplementalProperty"`
	Essential    []Desc       `xml:"EssentialProperty"`
	Roles        []Desc       `xml:"Role"`
	ProducerRefs []struct {
		ID string `xml:"id,attr"`
	} `xml:"ProducerReferenceTime"`
}

type Period struct {
	ID       string          `xml:"id,attr"`
	Start    string          `xml:"start,attr"`
	Duration string          `xml:"duration,attr"`
	BaseURLs []string        `xml:"BaseURL"`
	AS       []AdaptationSet `xml:"AdaptationSet"`
}

type PatchLoc struct {
	TTL   float64 `xml:"ttl,attr"`
	Value string  `xml:",chardata"`
}

type MPD struct {
	XMLName                    xml.Name   `xml:"MPD"`
	ID                         string     `xml:"id,attr"`
	Type                       string     `xml:"type,attr"`
	PublishTime                string     `xml:"publishTime,attr"`
	AvailabilityStartTime      string     `xml:"availabilityStartTime,attr"`
	MediaPresentationDuration  string     `xml:"mediaPresentationDuration,attr"`
	TimeShiftBufferDepth       string     `xml:"timeShiftBufferDepth,attr"`
	MinimumUpdatePeriod        string     `xml:"minimumUpdatePeriod,attr"`
	SuggestedPresentationDelay string     `xml:"suggestedPresentationDelay,attr"`
	Locations                  []string   `xml:"Location"`
	PatchLocations             []PatchLoc `xml:"PatchLocation"`
	BaseURLs                   []string   `xml:"BaseURL"`
	Periods                    []Period   `xml:"Period"`
	UTCTimings                 []Desc     `xml:"UTCTiming"`
	ServiceDescriptions        []struct {
		ID string `xml:"id,attr"`
	} `xml:"ServiceDescription"`
}

func ParseMPD(b []byte) (*MPD, error) {
	var m MPD
	if err := xml.Unmarshal(b, &m); err != nil {
		return nil, err
	}
	return &m, nil
}

var durRe = regexp.MustCompile(`^P(?:(\d+)Y)?(?:(\d+)M)?(?:(\d+)D)?(?:T(?:(\d+)H)?(?:(\d+)M)?(?:(\d+(?:\.\d+)?)S)?)?$`)

// DurMS parses an xs:duration into milliseconds (exact for up to 3 decimals; more decimals are an error).
func DurMS(s string) (int64, error) {
	m := durRe.FindStringSubmatch(s)
	if m == nil {
		return 0, fmt.Errorf("bad duration %q", s)
	}
	if m[1] != "" || m[2] != "" {
		return 0, fmt.Errorf("year/month in duration %q", s)
	}
	var ms int64
	atoi := func(x string) int64 { n, _ := strconv.ParseInt(x, 10, 64); return n }
	ms += atoi(m[3]) * 86400000
	ms += atoi(m[4]) * 3600000
	ms += atoi(m[5]) * 60000
	if m[6] != "" {
		r, ok := new(big.Rat).SetString(m[6])
		if !ok {
			return 0, fmt.Errorf("bad seconds in %q", s)
		}
		r.Mul(r, big.NewRat(1000, 1))
		if !r.IsInt() {
			return 0, fmt.Errorf("duration %q is not a whole number of ms", s)
		}
		ms += r.Num().Int64()
	}
	return ms, nil
}

// DateMS parses an xs:dateTime into Unix milliseconds (exact; sub-ms digits are an error).
func DateMS(s string) (int64, error) {
	t, err := time.Parse(time.RFC3339Nano, s)
	if err != nil {
		return 0, err
	}
	if t.Nanosecond()%1_000_000 != 0 {
		return 0, fmt.Errorf("dateTime %q has sub-millisecond digits", s)
	}
	return t.UnixMilli(), nil
}

// DeclSeg is one media segment an MPD declares.
type DeclSeg struct {
	Period        int
	PeriodID      string
	AS            int
	RepID         string
	Kind          string // content type
	Time          uint64 // media time (as used in $Time$ and tfdt), timeline mode
	Dur           uint64
	Nr            int64 // -1 if unknown
	HasNr         bool
	URL           string // relative to the MPD's directory (BaseURL prefixed when present)
	TS            uint64
	PTO           uint64
	PeriodStartMS int64
}

// Template returns the effective SegmentTemplate of a representation.
func (as *AdaptationSet) Template(r *Rep) *SegTemplate {
	if r.SegTemplate != nil {
		return r.SegTemplate
	}
	return as.SegTemplate
}

func ExpandURL(tmpl, repID string, bw int, nr int64, t uint64) string {
	s := strings.ReplaceAll(tmpl, "$RepresentationID$", repID)
	s = strings.ReplaceAll(s, "$Bandwidth$", strconv.Itoa(bw))
	s = strings.ReplaceAll(s, "$Number$", strconv.FormatInt(nr, 10))
	s = strings.ReplaceAll(s, "$Time$", strconv.FormatUint(t, 10))
	return s
}

// TimelineSegs expands the SegmentTimeline of every representation of every period.
func (m *MPD) TimelineSegs() ([]DeclSeg, error) {
	var out []DeclSeg
	for pi := range m.Periods {
		p := &m.Periods[pi]
		var pStart int64
		if p.Start != "" {
			v, err := DurMS(p.Start)
			if err != nil {
				return nil, err
			}
			pStart = v
		}
		for ai := range p.AS {
			as := &p.AS[ai]
			for ri := range as.Reps {
				r := &as.Reps[ri]
				st := as.Template(r)
				if st == nil || st.Timeline == nil {
					continue
				}
				var t uint64
				nr := int64(1)
				hasNr := strings.Contains(st.Media, "$Number$")
				if st.StartNumber != nil {
					nr = int64(*st.StartNumber)
				}
				var pto uint64
				if st.PTO != nil {
					pto = *st.PTO
				}
				for k, s := range st.Timeline.S {
					if s.T != nil {
						t = *s.T
					} else if k == 0 {
						t = 0
					}
					if s.R < 0 {
						return nil, fmt.Errorf("negative @r not supported by the reader")
					}
					for j := 0; j <= s.R; j++ {
						d := DeclSeg{Period: pi, PeriodID: p.ID, AS: ai, RepID: r.ID, Kind: as.ContentType, Time: t, Dur: s.D, Nr: nr, HasNr: hasNr,
							TS: st.TS(), PTO: pto, PeriodStartMS: pStart}
						d.URL = ExpandURL(st.Media, r.ID, r.Bandwidth, nr, t)
						out = append(out, d)
						t += s.D
						nr++
					}
				}
			}
		}
	}
	return out, nil
}
