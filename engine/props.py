# per-property configuration for bin/vcheck
PROPS = {
    "C20": {
        "parts": [{"pkg": "livesim", "test": "TestVerifC20", "shards": {"quick": 8, "thorough": 16}}],
        "clauses": ["C20.lin", "C20.quota", "C20.race", "C20.seq"],
        "level": "model_checking",
        "rule": "every schedule (preemption bound 2 quick / 3 thorough) of 2-3 client threads + reader (+ clock tick) "
                "through the real limiter middleware; every Inc sequence to depth 5/6 over 3 addresses x 3 time steps",
        "assumptions": ["goroutines are serialised by the vrt scheduler; scheduling points at mutex operations and harness request boundaries",
                        "data races are decided by a vector-clock detector on rewritten struct-field accesses",
                        "porcupine v1.3.0 decides linearizability of each recorded history"],
    },
}
