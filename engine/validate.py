#!/usr/bin/env python3
import json, sys, glob
import jsonschema
m = json.load(open('/verif/MANIFEST.json'))
jsonschema.validate(m, json.load(open('/root/.vp/MANIFEST.schema.json')))
es = json.load(open('/root/.vp/EVIDENCE.schema.json'))
for c in m['checks']:
    f = '/verif/' + c['evidence_file']
    try:
        jsonschema.validate(json.load(open(f)), es)
    except Exception as e:
        print('EVIDENCE INVALID', f, str(e)[:300])
print('validated', len(m['checks']), 'checks')
