#!/usr/bin/env python3
"""regenerates MANIFEST.json from engine/props.py (one check per claimed property)"""
import json, os, sys
here = os.path.dirname(os.path.abspath(__file__))
sys.path.insert(0, here)
from props import PROPS
ALL = ["C%02d" % i for i in range(1, 21)]
# additions of the sixth session to what a check enumerates (appended to the rule text of engine/props.py)
ADDENDA = {
    "C01": "; + layouts with video segments of four fragments (sample duration in every tfhd / in the init segment's trex only): every fragment's distance to the segment start as in the VoD file",
    "C04": "; + timeoffset_ x start_100 (also ato_inf, segtimeline_1) x 6 offsets x the instants at which either clock passes the stream start and the first availability instants (425 bodies compared)",
    "C16": "; + configuration testpic8s-chunked (chunks above 64 KiB)",
    "C07": "; + DRM init segments of a second asset with the same representation ids; + the alphabet served once more in reverse order by a child process of the same binary (each request on a server of its own) and compared with this process's answers (state outside the server instance)",
    "C08": "; + 7 Annex I key lists x 16 query strings (keys more often, less often, in another order, without value) x 4 endpoints x 2 MPD types; + receiver uploads x 26 Content-Length header values (absent, 0, too small, too large, negative, not a number, 2^60..2^63-1, beyond int64) x {init, media} x {parsing, raw mode} (values between 2^31 and 2^47 left out: they would take the machine's memory where the handler allocates what the field says)",
    "C10": "; + two CPIX packages that share the one-key package's key id (another explicitIV; the cenc scheme); + assets with all / only the audio / only the video track pre-encrypted",
    "C13": "; + the same stream walked again under snr_5 and snr_1 on the same server instance (testpic_2s, testpic_8s)",
    "C15": "; + every cache file as the real record with a damaged segment table (empty, one entry missing in the middle, two entries swapped, an entry that ends before it starts)",
    "C17": "; thorough: breadth-first search to depth 6 (VERIF_C17_DEPTH overrides)",
    "C20": "; + scenarios link-local-zone and link-local-zone-whitelisted (RemoteAddr [fe80::1%eth0]:port, forwarded-for with a zone, fe80::/10 white-listed)",
}
checks = []
for pid in ALL:
    if pid not in PROPS or PROPS[pid].get("disabled"):
        continue
    p = PROPS[pid]
    checks.append({
        "property_id": pid,
        "quick_cmd": "bin/vcheck %s quick" % pid,
        "thorough_cmd": "bin/vcheck %s thorough" % pid,
        "evidence_file": "evidence/%s.json" % pid,
        "replay_cmd_template": "bin/vcheck replay {path}",
        "engine": p.get("engine", "vrt"),
        "level_claimed": {"category": p.get("level", "model_checking"), "text": p.get("level_text", p.get("rule", "")) + ADDENDA.get(pid, ""),
                          "design_ref": "DESIGN.md section 4, " + pid},
        "level_note": "; ".join(p.get("assumptions", [])) or "see DESIGN.md section 5",
        "technique": p.get("technique", "model checking: bounded-exhaustive exploration of the real code under the vrt controlled runtime"),
    })
na = [{"property_id": pid, "reason": (PROPS.get(pid, {}).get("disabled") or "check not built yet in this round; planned per DESIGN.md section 4")}
      for pid in ALL if pid not in PROPS or PROPS[pid].get("disabled")]
m = {
    "version": 1,
    "setup_cmd": "bin/vcheck build",
    "hooks": {
        "guard": "verif",
        "enable": "go test -c -tags verif -overlay <generated: vinstr-rewritten copies of /repo's working tree + virtual shim packages internal/vshim/* + in-package harness files> (nothing is written into /repo)",
        "baseline_off_cmd": "cd /repo && GOFLAGS=-mod=mod GOPROXY=off GOSUMDB=off GOTOOLCHAIN=local go test -json -vet=off -count=1 -timeout 25m ./...",
        "source_commits": [],
        "add_only": True,
    },
    "engines": [
        {"name": "vrt", "path": "engine/shim/vrt", "serves_properties": [c["property_id"] for c in checks],
         "kind_free_text": "controlled scheduler + deviation-bounded DFS explorer + vector-clock race detector + virtual time, bound to the real code through the vinstr source rewriter (engine/vinstr) and go build -overlay"},
    ],
    "checks": checks,
    "not_applicable": na,
    "notes": "All checks rebuild from /repo's working tree on every invocation (rewritten copies are regenerated). Exit 2 = infrastructure error. "
             "Known findings (status known: printed as KNOWN-FINDING, exit 0) and repaired defects (status fixed: suppress nothing) are in known_findings.json, "
             "matched by clause and cause-specific signature; the file is never written at run time. DESIGN.md section 9 is the as-built record; "
             "seeded/ holds 140 property-breaking changes with the check that catches each (seeded/RESULTS.txt from bin/vseedall).",
}
json.dump(m, open(os.path.join(os.path.dirname(here), "MANIFEST.json"), "w"), indent=1)
print("manifest: %d checks, %d not_applicable" % (len(checks), len(na)))
