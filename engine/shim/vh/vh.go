// Package vh holds what every verification harness shares: tier/shard
// parameters, the violation/coverage report written for the driver, and clause
// hit counters (vacuity guards).
package vh

import (
	"encoding/json"
	"fmt"
	"os"
	"sort"
	"strconv"
	"strings"
	"sync"
	"time"
)

type Violation struct {
	Clause string `json:"clause"`
	Sig    string `json:"sig"`
	Msg    string `json:"msg"`
	Input  any    `json:"input,omitempty"`
}

type Report struct {
	mu         sync.Mutex
	Property   string           `json:"property"`
	Tier       string           `json:"tier"`
	Shard      int              `json:"shard"`
	NShards    int              `json:"nshards"`
	States     int64            `json:"states"`
	Trans      int64            `json:"transitions"`
	Execs      int64            `json:"executions"`
	Outcomes   map[string]int   `json:"outcomes,omitempty"`
	ClauseHits map[string]int64 `json:"clause_hits"`
	Violations []Violation      `json:"violations"`
	Samples    []any            `json:"samples"`
	CapsHit    []string         `json:"caps_hit"`
	Exhaustive bool             `json:"exhaustive"`
	Bound      int              `json:"bound_completed"`
	Extra      map[string]any   `json:"extra,omitempty"`
	Notes      []string         `json:"notes,omitempty"`
	WallS      float64          `json:"wall_s"`
	Done       bool             `json:"done"`
	seen       map[string]bool
	start      time.Time
	deadline   time.Time
}

func Tier() string {
	t := os.Getenv("VERIF_TIER")
	if t == "" {
		return "quick"
	}
	return t
}

func Quick() bool { return Tier() != "thorough" }

func Shard() (int, int) {
	s := os.Getenv("VERIF_SHARD")
	if s == "" {
		return 0, 1
	}
	p := strings.Split(s, "/")
	i, _ := strconv.Atoi(p[0])
	n, _ := strconv.Atoi(p[1])
	if n <= 0 {
		n = 1
	}
	return i, n
}

// Mine reports whether work item k belongs to this shard.
func Mine(k int) bool {
	i, n := Shard()
	return k%n == i
}

func NewReport(prop string) *Report {
	i, n := Shard()
	r := &Report{Property: prop, Tier: Tier(), Shard: i, NShards: n, ClauseHits: map[string]int64{},
		Outcomes: map[string]int{}, Extra: map[string]any{}, seen: map[string]bool{}, start: time.Now(), Exhaustive: true}
	if d := os.Getenv("VERIF_BUDGET_S"); d != "" {
		if f, err := strconv.ParseFloat(d, 64); err == nil {
			r.deadline = r.start.Add(time.Duration(f * float64(time.Second)))
		}
	}
	return r
}

// OutOfBudget reports whether the internal deadline has passed; the first call
// that returns true records the cap (exhaustive=false). Never a verdict.
func (r *Report) OutOfBudget() bool {
	if r.deadline.IsZero() || time.Now().Before(r.deadline) {
		return false
	}
	r.Cap("time_budget")
	return true
}

// DeadlineUnix is the wall-clock second at which explorations should stop (0 = no budget).
func (r *Report) DeadlineUnix() int64 {
	if r.deadline.IsZero() {
		return 0
	}
	return r.deadline.Unix()
}

func (r *Report) Cap(what string) {
	r.mu.Lock()
	defer r.mu.Unlock()
	r.Exhaustive = false
	for _, c := range r.CapsHit {
		if c == what {
			return
		}
	}
	r.CapsHit = append(r.CapsHit, what)
}

func (r *Report) Hit(clause string) {
	r.mu.Lock()
	r.ClauseHits[clause]++
	r.mu.Unlock()
}

func (r *Report) HitN(clause string, n int64) {
	r.mu.Lock()
	r.ClauseHits[clause] += n
	r.mu.Unlock()
}

// Violate records a violation; one record per distinct signature is kept.
func (r *Report) Violate(clause, sig, msg string, input any) {
	r.mu.Lock()
	defer r.mu.Unlock()
	key := clause + "|" + sig
	if r.seen[key] {
		return
	}
	r.seen[key] = true
	r.Violations = append(r.Violations, Violation{Clause: clause, Sig: sig, Msg: msg, Input: input})
}

func (r *Report) Sample(s any) {
	r.mu.Lock()
	if len(r.Samples) < 5 {
		r.Samples = append(r.Samples, s)
	}
	r.mu.Unlock()
}

func (r *Report) Outcome(o string) {
	r.mu.Lock()
	if len(r.Outcomes) < 10000 {
		r.Outcomes[o]++
	}
	r.mu.Unlock()
}

func (r *Report) AddStates(n int64) { r.mu.Lock(); r.States += n; r.mu.Unlock() }
func (r *Report) AddTrans(n int64)  { r.mu.Lock(); r.Trans += n; r.mu.Unlock() }
func (r *Report) AddExecs(n int64)  { r.mu.Lock(); r.Execs += n; r.mu.Unlock() }

func (r *Report) Note(f string, a ...any) {
	r.mu.Lock()
	if len(r.Notes) < 50 {
		r.Notes = append(r.Notes, fmt.Sprintf(f, a...))
	}
	r.mu.Unlock()
}

// Write stores the report where the driver expects it.
func (r *Report) Write() {
	r.mu.Lock()
	defer r.mu.Unlock()
	r.WallS = time.Since(r.start).Seconds()
	r.Done = true
	sort.Slice(r.Violations, func(i, j int) bool { return r.Violations[i].Sig < r.Violations[j].Sig })
	out := os.Getenv("VERIF_OUT")
	b, err := json.MarshalIndent(r, "", " ")
	if err != nil {
		fmt.Fprintln(os.Stderr, "vh: marshal:", err)
		os.Exit(2)
	}
	if out == "" {
		fmt.Println(string(b))
		return
	}
	if err := os.WriteFile(out, b, 0o644); err != nil {
		fmt.Fprintln(os.Stderr, "vh: write:", err)
		os.Exit(2)
	}
}
