// Package vgen re-cuts the bundled testpic_2s tracks into other VoD layouts
// (segment counts, durations, timescales, templates). It only produces *inputs*:
// the oracles re-read the generated files with the independent walker in vref.
package vgen

import (
	"bytes"
	"fmt"
	"os"
	"path/filepath"
	"strings"

	"github.com/Eyevinn/mp4ff/mp4"
)

type Layout struct {
	Name            string
	VideoTS         uint32   // media timescale of the video track
	FrameDur        uint32   // duration of every video frame in VideoTS
	SegFrames       []int    // video frames per segment
	AudioSegs       []int    // audio frames (1024 @ 48 kHz) per audio segment; nil = no audio
	FrameDurs       []uint32 // if set: video frame durations cycle through these values (variable frame rate) instead of FrameDur
	Thumbs          int      // number of thumbnail images per loop (0 = none); their duration is loop/Thumbs, whatever the video segments are
	ImageBeforeTxt  bool     // MPD order audio, video, image, text (instead of video, audio, text, image)
	AudioTS         uint32   // media timescale of the AAC track (0 = 48000); 44100 gives 1024-sample frames of 23.2 ms
	AudioOnly       bool     // the MPD has no video AdaptationSet (radio): the audio track is the reference track
	Audio2AC3       bool     // a second audio AdaptationSet (AC-3, 1536-sample frames, same 48 kHz timescale) built from bundled bbb_hevc_ac3_8s
	TextBothSizes   bool     // subtitle segments carry the sample size both as tfhd default_sample_size and in the trun
	TextLastShort   uint32   // the last subtitle segment is this many ms shorter than the video segment it goes with
	LastTfdtJump    uint64   // the last video segment's tfdt is this many ticks later than the end of the one before (a gap the sample durations do not show)
	VideoFragFrames int      // if != 0: every video segment consists of fragments (moof+mdat) of this many frames
	VideoTrexOnly   bool     // the video sample duration is signalled by the init segment's trex only (no tfhd default, no durations in trun)
	VideoTrexDur    uint32   // if != 0: default sample duration in the video init segment's trex (the segments' tfhd says FrameDur, trun has no durations)
	ExtraOwnAS      bool     // the extra video representation gets an AdaptationSet (and SegmentTimeline) of its own
	AudioTrexDur    uint32   // if != 0: default sample duration in the audio init segment's trex (the segments' tfhd says 1024)
	UseTime         bool     // SegmentTimeline + $Time$ templates instead of $Number$ + duration
	StartNr         int      // startNumber of $Number$ templates
	Text            bool     // add an stpp track (1 sample per video segment, timescale 1000) -- needs whole-ms segments
	ExtraVideo      string   // id of a second video representation (same content), "" = none
	ExtraSegFrames  []int    // frames per segment of the second video representation (nil = as the first)
	VideoID         string
	TimeOffset      uint64 // first video tfdt (media time of the first VoD segment)
	Shift           []int  // Shift[i]: the boundary after video segment i is moved by this many ticks (last frame longer, next first frame shorter)
}

func (l Layout) audioTS() uint32 {
	if l.AudioTS != 0 {
		return l.AudioTS
	}
	return 48000
}

type srcTrack struct {
	init    *mp4.InitSegment
	samples []mp4.FullSample
}

func (t *srcTrack) trackID() uint32 { return t.init.Moov.Trak.Tkhd.TrackID }

func readTrack(dir string, n int) (*srcTrack, error) {
	return readTrackNamed(dir, "init.mp4", "%d.m4s", n)
}

func readTrackNamed(dir, initName, segPattern string, n int) (*srcTrack, error) {
	raw, err := os.ReadFile(filepath.Join(dir, initName))
	if err != nil {
		return nil, err
	}
	f, err := mp4.DecodeFile(bytes.NewReader(raw))
	if err != nil {
		return nil, err
	}
	t := &srcTrack{init: f.Init}
	for i := 1; i <= n; i++ {
		raw, err := os.ReadFile(filepath.Join(dir, fmt.Sprintf(segPattern, i)))
		if err != nil {
			return nil, err
		}
		sf, err := mp4.DecodeFile(bytes.NewReader(raw))
		if err != nil {
			return nil, err
		}
		for _, sg := range sf.Segments {
			for _, fr := range sg.Fragments {
				fs, err := fr.GetFullSamples(f.Init.Moov.Mvex.Trex)
				if err != nil {
					return nil, err
				}
				t.samples = append(t.samples, fs...)
			}
		}
	}
	return t, nil
}

func writeInit(dst string, in *mp4.InitSegment, ts uint32) error {
	in.Moov.Trak.Mdia.Mdhd.Timescale = ts
	var buf bytes.Buffer
	if err := in.Encode(&buf); err != nil {
		return err
	}
	return os.WriteFile(dst, buf.Bytes(), 0o644)
}

func writeSeg(dst string, seqNr, trackID uint32, samples []mp4.FullSample) error {
	return writeSegOpt(dst, seqNr, trackID, samples, false)
}

// writeSegOpt: with optimize, common sample values move into the tfhd defaults (as packagers do).
func writeSegOpt(dst string, seqNr, trackID uint32, samples []mp4.FullSample, optimize bool) error {
	return writeSegX(dst, seqNr, trackID, samples, optimize, false)
}

// writeSegX: bothSizes also writes the (first) sample size as tfhd default_sample_size while the trun keeps its sizes.
func writeSegX(dst string, seqNr, trackID uint32, samples []mp4.FullSample, optimize, bothSizes bool) error {
	seg := mp4.NewMediaSegment()
	frag, err := mp4.CreateFragment(seqNr, trackID)
	if err != nil {
		return err
	}
	if optimize {
		frag.EncOptimize = mp4.OptimizeTrun
		seg.EncOptimize = mp4.OptimizeTrun
	}
	seg.AddFragment(frag)
	for _, s := range samples {
		frag.AddFullSample(s)
	}
	if bothSizes && len(samples) > 0 {
		frag.Moof.Traf.Tfhd.DefaultSampleSize = samples[0].Size
		frag.Moof.Traf.Tfhd.Flags |= 0x000010
	}
	var buf bytes.Buffer
	if err := seg.Encode(&buf); err != nil {
		return err
	}
	return os.WriteFile(dst, buf.Bytes(), 0o644)
}

// writeSegFrags writes one segment as several fragments of fragFrames samples each (0 = one fragment). With trexOnly
// the default sample duration is removed from every tfhd (the trun carries none either), so that only the init
// segment's trex says how long a sample is.
func writeSegFrags(dst string, seqNr, trackID uint32, samples []mp4.FullSample, fragFrames int, trexOnly bool) error {
	if fragFrames <= 0 {
		fragFrames = len(samples)
	}
	seg := mp4.NewMediaSegment()
	seg.EncOptimize = mp4.OptimizeTrun
	for i := 0; i < len(samples); i += fragFrames {
		frag, err := mp4.CreateFragment(seqNr, trackID)
		if err != nil {
			return err
		}
		frag.EncOptimize = mp4.OptimizeTrun
		seg.AddFragment(frag)
		for _, s := range samples[i:min(i+fragFrames, len(samples))] {
			frag.AddFullSample(s)
		}
	}
	var buf bytes.Buffer
	if err := seg.Encode(&buf); err != nil {
		return err
	}
	if trexOnly {
		f, err := mp4.DecodeFile(bytes.NewReader(buf.Bytes()))
		if err != nil {
			return err
		}
		if len(f.Segments) != 1 {
			return fmt.Errorf("writeSegFrags: %d segments after decoding", len(f.Segments))
		}
		for _, fr := range f.Segments[0].Fragments {
			tfhd := fr.Moof.Traf.Tfhd
			if !tfhd.HasDefaultSampleDuration() || fr.Moof.Traf.Trun.HasSampleDuration() {
				return fmt.Errorf("writeSegFrags: trexOnly needs one constant sample duration")
			}
			tfhd.Flags &^= 0x000008
			tfhd.DefaultSampleDuration = 0
		}
		buf.Reset()
		if err := f.Segments[0].Encode(&buf); err != nil {
			return err
		}
	}
	return os.WriteFile(dst, buf.Bytes(), 0o644)
}

// Generate writes the asset under root/<l.Name>. src is the bundled testpic_2s directory.
func Generate(root, src string, l Layout) error {
	dir := filepath.Join(root, l.Name)
	vid := l.VideoID
	if vid == "" {
		vid = "V300"
	}
	video, err := readTrack(filepath.Join(src, "V300"), 4)
	if err != nil {
		return fmt.Errorf("video source: %w", err)
	}
	type segT struct{ t, d uint64 }
	var vsegs, esegs []segT
	vids := []string{vid}
	if l.ExtraVideo != "" {
		vids = append(vids, l.ExtraVideo)
	}
	for _, id := range vids {
		if err := os.MkdirAll(filepath.Join(dir, id), 0o755); err != nil {
			return err
		}
		if l.VideoTrexDur != 0 {
			video.init.Moov.Mvex.Trex.DefaultSampleDuration = l.VideoTrexDur
		}
		if l.VideoTrexOnly {
			video.init.Moov.Mvex.Trex.DefaultSampleDuration = l.FrameDur
		}
		if err := writeInit(filepath.Join(dir, id, "init.mp4"), video.init, l.VideoTS); err != nil {
			return err
		}
		t := l.TimeOffset
		k := 0
		segFrames := l.SegFrames
		if id == l.ExtraVideo && l.ExtraSegFrames != nil {
			segFrames = l.ExtraSegFrames
		}
		var mySegs []segT
		for si, nf := range segFrames {
			var ss []mp4.FullSample
			if si == len(segFrames)-1 && si > 0 {
				t += l.LastTfdtJump
			}
			start := t
			for j := 0; j < nf; j++ {
				s := video.samples[k%len(video.samples)]
				k++
				s.Dur = l.FrameDur
				if len(l.FrameDurs) > 0 {
					s.Dur = l.FrameDurs[j%len(l.FrameDurs)]
				}
				if j == nf-1 && si < len(l.Shift) {
					s.Dur = uint32(int(l.FrameDur) + l.Shift[si])
				}
				if j == 0 && si > 0 && si-1 < len(l.Shift) {
					s.Dur = uint32(int(l.FrameDur) - l.Shift[si-1])
				}
				s.CompositionTimeOffset = 0
				s.DecodeTime = t
				t += uint64(s.Dur)
				ss = append(ss, s)
			}
			name := fmt.Sprintf("%d.m4s", l.StartNr+si)
			if l.UseTime {
				name = fmt.Sprintf("%d.m4s", start)
			}
			if l.VideoFragFrames != 0 || l.VideoTrexOnly {
				if err := writeSegFrags(filepath.Join(dir, id, name), uint32(l.StartNr+si), video.trackID(), ss, l.VideoFragFrames, l.VideoTrexOnly); err != nil {
					return err
				}
			} else if err := writeSegOpt(filepath.Join(dir, id, name), uint32(l.StartNr+si), video.trackID(), ss, l.VideoTrexDur != 0); err != nil {
				return err
			}
			mySegs = append(mySegs, segT{start, t - start})
		}
		if id == vid {
			vsegs = mySegs
		} else {
			esegs = mySegs
		}
	}
	var asegs []segT
	if l.AudioSegs != nil {
		audio, err := readTrack(filepath.Join(src, "A48"), 4)
		if err != nil {
			return fmt.Errorf("audio source: %w", err)
		}
		if err := os.MkdirAll(filepath.Join(dir, "A48"), 0o755); err != nil {
			return err
		}
		if l.AudioTrexDur != 0 {
			audio.init.Moov.Mvex.Trex.DefaultSampleDuration = l.AudioTrexDur
		}
		if err := writeInit(filepath.Join(dir, "A48", "init.mp4"), audio.init, l.audioTS()); err != nil {
			return err
		}
		t := uint64(0)
		k := 0
		for si, nf := range l.AudioSegs {
			var ss []mp4.FullSample
			start := t
			for j := 0; j < nf; j++ {
				s := audio.samples[k%len(audio.samples)]
				k++
				s.DecodeTime = t
				t += uint64(s.Dur)
				ss = append(ss, s)
			}
			name := fmt.Sprintf("%d.m4s", l.StartNr+si)
			if l.UseTime {
				name = fmt.Sprintf("%d.m4s", start)
			}
			if err := writeSegOpt(filepath.Join(dir, "A48", name), uint32(l.StartNr+si), audio.trackID(), ss, l.AudioTrexDur != 0); err != nil {
				return err
			}
			asegs = append(asegs, segT{start, t - start})
		}
	}
	var a2segs []segT
	if l.Audio2AC3 {
		ac3, err := readTrackNamed(filepath.Join(filepath.Dir(src), "bbb_hevc_ac3_8s"), "audio_init.mp4", "audio_%d.m4s", 4)
		if err != nil {
			return fmt.Errorf("AC-3 source: %w", err)
		}
		if err := os.MkdirAll(filepath.Join(dir, "AC3"), 0o755); err != nil {
			return err
		}
		if err := writeInit(filepath.Join(dir, "AC3", "init.mp4"), ac3.init, 48000); err != nil {
			return err
		}
		// frames of 1536 ticks: as many per segment as start before the end of the video segment (ceil grid)
		var vend, total uint64
		t, k := uint64(0), 0
		for _, vs := range vsegs {
			total += vs.d
		}
		for si, vs := range vsegs {
			vend += vs.d
			var ss []mp4.FullSample
			start := t
			lim := vend * 48000 / uint64(l.VideoTS)
			if si == len(vsegs)-1 {
				lim = total * 48000 / uint64(l.VideoTS)
			}
			for t < lim {
				s := ac3.samples[k%len(ac3.samples)]
				k++
				s.DecodeTime = t
				t += uint64(s.Dur)
				ss = append(ss, s)
			}
			name := fmt.Sprintf("%d.m4s", l.StartNr+si)
			if l.UseTime {
				name = fmt.Sprintf("%d.m4s", start)
			}
			if err := writeSeg(filepath.Join(dir, "AC3", name), uint32(l.StartNr+si), ac3.trackID(), ss); err != nil {
				return err
			}
			a2segs = append(a2segs, segT{start, t - start})
		}
	}
	var tsegs []segT
	if l.Text {
		text, err := readTrack(filepath.Join(src, "imsc1_txt_sv"), 4)
		if err != nil {
			return fmt.Errorf("text source: %w", err)
		}
		if err := os.MkdirAll(filepath.Join(dir, "T1"), 0o755); err != nil {
			return err
		}
		if err := writeInit(filepath.Join(dir, "T1", "init.mp4"), text.init, 1000); err != nil {
			return err
		}
		for si, vs := range vsegs {
			if vs.t*1000%uint64(l.VideoTS) != 0 || vs.d*1000%uint64(l.VideoTS) != 0 {
				return fmt.Errorf("layout %s: text track needs whole-ms segment boundaries", l.Name)
			}
			s := text.samples[si%len(text.samples)]
			s.DecodeTime = vs.t * 1000 / uint64(l.VideoTS)
			s.Dur = uint32(vs.d * 1000 / uint64(l.VideoTS))
			if si == len(vsegs)-1 && l.TextLastShort > 0 {
				s.Dur -= l.TextLastShort
			}
			name := fmt.Sprintf("%d.m4s", l.StartNr+si)
			if l.UseTime {
				name = fmt.Sprintf("%d.m4s", s.DecodeTime)
			}
			if err := writeSegX(filepath.Join(dir, "T1", name), uint32(l.StartNr+si), text.trackID(), []mp4.FullSample{s}, false, l.TextBothSizes); err != nil {
				return err
			}
			tsegs = append(tsegs, segT{s.DecodeTime, uint64(s.Dur)})
		}
	}
	if l.Thumbs > 0 {
		if err := os.MkdirAll(filepath.Join(dir, "thumbs"), 0o755); err != nil {
			return err
		}
		for i := 0; i < l.Thumbs; i++ {
			img, err := os.ReadFile(filepath.Join(src, "thumbs", fmt.Sprintf("%d.jpg", i%4+1)))
			if err != nil {
				return fmt.Errorf("thumbnail source: %w", err)
			}
			if err := os.WriteFile(filepath.Join(dir, "thumbs", fmt.Sprintf("%d.jpg", l.StartNr+i)), img, 0o644); err != nil {
				return err
			}
		}
	}
	// ---- MPD
	nominal := func(ts uint32) uint64 { // nominal $Number$ duration: the average video segment duration in the track's timescale
		var tot uint64
		for _, s := range vsegs {
			tot += s.d
		}
		return tot / uint64(len(vsegs)) * uint64(ts) / uint64(l.VideoTS)
	}
	tmpl := func(ts uint32, segs []segT) string {
		if l.UseTime {
			var b strings.Builder
			fmt.Fprintf(&b, `<SegmentTemplate timescale="%d" initialization="$RepresentationID$/init.mp4" media="$RepresentationID$/$Time$.m4s"><SegmentTimeline>`, ts)
			for i, s := range segs {
				if i == 0 {
					fmt.Fprintf(&b, `<S t="%d" d="%d"/>`, s.t, s.d)
				} else {
					fmt.Fprintf(&b, `<S d="%d"/>`, s.d)
				}
			}
			b.WriteString(`</SegmentTimeline></SegmentTemplate>`)
			return b.String()
		}
		return fmt.Sprintf(`<SegmentTemplate timescale="%d" startNumber="%d" duration="%d" initialization="$RepresentationID$/init.mp4" media="$RepresentationID$/$Number$.m4s"/>`,
			ts, l.StartNr, nominal(ts))
	}
	var total uint64
	for _, s := range vsegs {
		total += s.d
	}
	var b strings.Builder
	fmt.Fprintf(&b, `<?xml version="1.0" encoding="utf-8"?>
<MPD xmlns="urn:mpeg:dash:schema:mpd:2011" profiles="urn:mpeg:dash:profile:isoff-live:2011" minBufferTime="PT2S" type="static" mediaPresentationDuration="PT%.3fS" id="gen">
 <Period id="one" start="PT0S">
`, float64(total)/float64(l.VideoTS))
	if !l.AudioOnly {
		fmt.Fprintf(&b, `  <AdaptationSet contentType="video" id="1" mimeType="video/mp4" segmentAlignment="true" startWithSAP="1">%s`, tmpl(l.VideoTS, vsegs))
		for _, id := range vids {
			if l.ExtraOwnAS && id == l.ExtraVideo {
				continue
			}
			fmt.Fprintf(&b, `<Representation id="%s" codecs="avc1.64001e" bandwidth="300000" width="640" height="360" frameRate="30"/>`, id)
		}
		b.WriteString("</AdaptationSet>\n")
	}
	if l.ExtraOwnAS && l.ExtraVideo != "" {
		fmt.Fprintf(&b, `  <AdaptationSet contentType="video" id="4" mimeType="video/mp4" segmentAlignment="true" startWithSAP="1">%s<Representation id="%s" codecs="avc1.64001e" bandwidth="600000" width="640" height="360" frameRate="30"/></AdaptationSet>
`, tmpl(l.VideoTS, esegs), l.ExtraVideo)
	}
	audioAS, textAS, imageAS := "", "", ""
	if asegs != nil {
		audioAS = fmt.Sprintf(`  <AdaptationSet contentType="audio" id="2" mimeType="audio/mp4" lang="en" segmentAlignment="true" startWithSAP="1">%s<Representation id="A48" codecs="mp4a.40.2" bandwidth="48000" audioSamplingRate="48000"/></AdaptationSet>
`, tmpl(l.audioTS(), asegs))
	}
	if a2segs != nil {
		audioAS += fmt.Sprintf(`  <AdaptationSet contentType="audio" id="5" mimeType="audio/mp4" lang="en" segmentAlignment="true" startWithSAP="1">%s<Representation id="AC3" codecs="ac-3" bandwidth="96000" audioSamplingRate="48000"/></AdaptationSet>
`, tmpl(48000, a2segs))
	}
	if tsegs != nil {
		textAS = fmt.Sprintf(`  <AdaptationSet contentType="text" id="3" mimeType="application/mp4" lang="sv" segmentAlignment="true" startWithSAP="1" codecs="stpp">%s<Representation id="T1" bandwidth="8000"/></AdaptationSet>
`, tmpl(1000, tsegs))
	}
	if l.Thumbs > 0 {
		imageAS = fmt.Sprintf(`  <AdaptationSet mimeType="image/jpeg" contentType="image"><SegmentTemplate media="$RepresentationID$/$Number$.jpg" timescale="%d" duration="%d" startNumber="%d"/><Representation bandwidth="10000" id="thumbs" width="160" height="90"><EssentialProperty schemeIdUri="http://dashif.org/guidelines/thumbnail_tile" value="1x1"/></Representation></AdaptationSet>
`, l.VideoTS, total/uint64(l.Thumbs), l.StartNr)
	}
	if l.ImageBeforeTxt {
		// audio, video, image, text: rebuild the document in that order
		doc := b.String()
		k := strings.Index(doc, `  <AdaptationSet contentType="video"`)
		b.Reset()
		b.WriteString(doc[:k] + audioAS + doc[k:] + imageAS + textAS)
	} else {
		b.WriteString(audioAS + textAS + imageAS)
	}
	b.WriteString(" </Period>\n</MPD>\n")
	return os.WriteFile(filepath.Join(dir, "Manifest.mpd"), []byte(b.String()), 0o644)
}

// Layouts returns the generated-asset alphabet (simplest first).
func Layouts(quick bool) []Layout {
	ls := []Layout{
		// 3 x 1.5 s segments: loop 4.5 s (fractional-second wraps), audio loop longer than video (211 frames = 4.5013 s)
		{Name: "g_3x1500ms", VideoTS: 90000, FrameDur: 3000, SegFrames: []int{45, 45, 45}, AudioSegs: []int{70, 70, 71}, Text: true},
		// irregular durations 1,3,2 s with $Time$ templates, audio loop shorter than video (281 frames = 5.9947 s)
		{Name: "g_irregular_time", VideoTS: 90000, FrameDur: 3000, SegFrames: []int{30, 90, 60}, AudioSegs: []int{94, 94, 93}, UseTime: true, Text: true},
		// 1001-based: 2 x 60 frames of 1001/30000 = 2.002 s, loop 4.004 s
		{Name: "g_1001", VideoTS: 30000, FrameDur: 1001, SegFrames: []int{60, 60}, AudioSegs: []int{94, 94}, Text: true},
		// single segment, startNumber 5, two video representations with overlapping ids
		{Name: "g_single_snr5", VideoTS: 90000, FrameDur: 3000, SegFrames: []int{60}, AudioSegs: []int{94}, StartNr: 5, ExtraVideo: "HV300"},
	}
	ls = append(ls,
		// a video boundary (180481 = 1920*94+1 ticks) whose conversion to 48 kHz is inexact with an integer part on the AAC frame grid
		Layout{Name: "g_inexact_audio_boundary", VideoTS: 90000, FrameDur: 3000, SegFrames: []int{60, 60, 60, 60}, AudioSegs: []int{94, 94, 94, 93}, Shift: []int{481}},
		// 1.92 s segments (48 frames at 25 fps): off-second starts whose segments intersect three UTC seconds
		Layout{Name: "g_1920ms", VideoTS: 12800, FrameDur: 512, SegFrames: []int{48, 48, 48, 48}, AudioSegs: []int{90, 90, 90, 90}, Text: true},
		// audio VoD grid coarser than the video grid: one 8 s audio segment for 4 x 2 s video segments
		// the audio init segment's trex default sample duration differs from the tfhd default of the segments
		Layout{Name: "g_trex_vs_tfhd", VideoTS: 90000, FrameDur: 3000, SegFrames: []int{60, 60}, AudioSegs: []int{94, 94}, AudioTrexDur: 1536},
		Layout{Name: "g_audio_one_seg", VideoTS: 90000, FrameDur: 3000, SegFrames: []int{60, 60, 60, 60}, AudioSegs: []int{375}},
	)
	if !quick {
		ls = append(ls,
			// audio VoD grid finer than the video grid
			Layout{Name: "g_audio_fine_grid", VideoTS: 90000, FrameDur: 3000, SegFrames: []int{120, 120}, AudioSegs: []int{47, 47, 47, 47, 47, 47, 47, 46}},
			Layout{Name: "g_sub_second", VideoTS: 15360, FrameDur: 512, SegFrames: []int{15, 15, 15}, AudioSegs: []int{24, 23, 24}},
			Layout{Name: "g_alt_short_long", VideoTS: 12800, FrameDur: 512, SegFrames: []int{25, 75, 25, 75, 25}, AudioSegs: []int{47, 141, 47, 141, 46}, Text: true},
			Layout{Name: "g_7seg_ms", VideoTS: 1000, FrameDur: 40, SegFrames: []int{24, 24, 24, 24, 24, 24, 24}, AudioSegs: []int{45, 45, 45, 45, 45, 45, 45}, Text: true, UseTime: true},
			Layout{Name: "g_60000_1001", VideoTS: 60000, FrameDur: 1001, SegFrames: []int{120, 60, 120}, AudioSegs: []int{188, 94, 188}},
			Layout{Name: "g_90000_3003", VideoTS: 90000, FrameDur: 3003, SegFrames: []int{50, 50, 50, 50}, AudioSegs: []int{78, 78, 78, 79}},
			Layout{Name: "g_time_offset", VideoTS: 90000, FrameDur: 3000, SegFrames: []int{60, 60}, UseTime: true, TimeOffset: 180000},
		)
	}
	return ls
}

// ExtraLayouts are used by single checks only (generated by the harness that wants them).
func ExtraLayouts() []Layout {
	return []Layout{
		// the video init segment's trex default sample duration differs from the tfhd default; trun carries no durations
		{Name: "x_video_trex_vs_tfhd", VideoTS: 90000, FrameDur: 3000, SegFrames: []int{60, 60}, AudioSegs: []int{94, 94}, VideoTrexDur: 2002},
		// two video representations with different segment grids (4 x 2 s and 1 x 8 s), $Time$ addressed
		// the last segment starts 1 ms later than the sample durations of the one before say (whole-ms total)
		{Name: "x_shift_last_boundary", VideoTS: 90000, FrameDur: 3000, SegFrames: []int{60, 60, 60, 60}, AudioSegs: []int{94, 94, 94, 93}, LastTfdtJump: 90},
		// 8 thumbnails of 1 s next to 4 video segments of 2 s; MPD order audio, video, image, text
		{Name: "x_thumbs_1s_before_text", VideoTS: 90000, FrameDur: 3000, SegFrames: []int{60, 60, 60, 60}, AudioSegs: []int{94, 94, 94, 93}, Text: true, Thumbs: 8, ImageBeforeTxt: true},
		// 2 thumbnails of 4 s for 4 x 2 s video
		{Name: "x_thumbs_4s", VideoTS: 90000, FrameDur: 3000, SegFrames: []int{60, 60, 60, 60}, Thumbs: 2},
		// subtitle track whose last segment is 0.5 s shorter than the video's
		{Name: "x_text_short_last", VideoTS: 90000, FrameDur: 3000, SegFrames: []int{60, 60, 60, 60}, Text: true, TextLastShort: 500},
		// variable frame rate: frames of 2000 and 4000 ticks alternate (same average and segment durations as 30 fps)
		{Name: "x_vfr_2000_4000", VideoTS: 90000, FrameDur: 3000, FrameDurs: []uint32{2000, 4000}, SegFrames: []int{60, 60, 60, 60}, AudioSegs: []int{94, 94, 94, 93}},
		// subtitle segments that signal their sample size in tfhd and in trun
		{Name: "x_text_both_sizes", VideoTS: 90000, FrameDur: 3000, SegFrames: []int{60, 60, 60, 60}, Text: true, TextBothSizes: true},
		// representation ids with characters that are unusual in file names, and that differ in such a character only
		// no video: the audio track is the reference track (375 AAC frames = 8 s exactly)
		{Name: "x_audio_only", VideoTS: 90000, FrameDur: 3000, SegFrames: []int{60, 60, 60, 60}, AudioSegs: []int{94, 94, 94, 93}, AudioOnly: true},
		// two audio AdaptationSets with one timescale and different frame durations (AAC 1024, AC-3 1536)
		{Name: "x_two_audio", VideoTS: 90000, FrameDur: 3000, SegFrames: []int{60, 60, 60, 60}, AudioSegs: []int{94, 94, 94, 93}, Audio2AC3: true},
		// AAC at 44.1 kHz (segments of 86 frames, just under 2 s; the loop is the video's)
		{Name: "x_audio_441", VideoTS: 90000, FrameDur: 3000, SegFrames: []int{60, 60, 60, 60}, AudioSegs: []int{87, 86, 86, 86}, AudioTS: 44100},
		// a 10 MHz video timescale (as packagers coming from Smooth Streaming use): 25 fps, 2 s segments
		{Name: "x_ts_10mhz", VideoTS: 10_000_000, FrameDur: 400_000, SegFrames: []int{50, 50, 50, 50}, AudioSegs: []int{94, 94, 94, 93}, Text: true},
		// video segments of four fragments each whose sample duration is signalled by the init segment's trex only
		{Name: "x_video_frags_trex_only", VideoTS: 90000, FrameDur: 3000, SegFrames: []int{60, 60, 60, 60}, AudioSegs: []int{94, 94, 94, 93}, VideoFragFrames: 15, VideoTrexOnly: true},
		// ... and with the duration in every tfhd (the usual low-latency packaging)
		{Name: "x_video_frags", VideoTS: 90000, FrameDur: 3000, SegFrames: []int{60, 60, 60, 60}, AudioSegs: []int{94, 94, 94, 93}, VideoFragFrames: 15},
		{Name: "x_rep_ids", VideoTS: 90000, FrameDur: 3000, SegFrames: []int{60, 60, 60, 60}, AudioSegs: []int{94, 94, 94, 93}, VideoID: "V300:b", ExtraVideo: "V300_b"},
		{Name: "x_two_video_grids", VideoTS: 90000, FrameDur: 3000, SegFrames: []int{60, 60, 60, 60}, ExtraVideo: "V8s", ExtraSegFrames: []int{240}, ExtraOwnAS: true, UseTime: true},
	}
}

// NegativeLayouts are assets that must be left out by the server (C15).
func NegativeLayouts() []Layout {
	return []Layout{
		// loop of 50 frames of 1001/30000 s = 1.668333.. s: not a whole number of milliseconds
		{Name: "neg_fractional_ms_loop", VideoTS: 30000, FrameDur: 1001, SegFrames: []int{25, 25}, AudioSegs: []int{39, 39}},
		// two video representations that disagree in total duration (8 s and 6 s)
		{Name: "neg_video_reps_disagree", VideoTS: 90000, FrameDur: 3000, SegFrames: []int{60, 60, 60, 60}, AudioSegs: []int{94, 94, 94, 93}, ExtraVideo: "V600", ExtraSegFrames: []int{60, 60, 60}},
	}
}
