package app

// C16 — CMAF-ingest sender: complete, ordered, faithful stream per representation.
//
// The real cmafIngesterMgr, REST handlers and cmafIngester.start run under the vrt scheduler on
// the virtual clock. http.DefaultClient's transport is a scripted in-process receiver that logs
// (path, headers, body) and whose answer (200 / 500 / 401 / slow 200) is an environment choice.
// Every schedule and answer sequence up to the deviation bound is explored for each
// (configuration, API program) scenario.

import (
	"bytes"
	"encoding/json"
	"errors"
	"fmt"
	"io"
	"net/http"
	"os"
	"sort"
	"strconv"
	"strings"
	"testing"

	"github.com/Dash-Industry-Forum/livesim2/internal/vshim/vh"
	"github.com/Dash-Industry-Forum/livesim2/internal/vshim/vref"
	"github.com/Dash-Industry-Forum/livesim2/internal/vshim/vrt"
)

type c16Req struct {
	Path    string
	Hdr     http.Header
	Body    []byte
	StartNS int64
	Status  int // 0 = aborted by the client (context cancelled) before an answer
	Chunked bool
	Idx     int
}

type c16Recv struct {
	log      []*c16Req
	devs     bool
	slowNS   int64
	devsUsed int
	initDevs int // non-default answers to init uploads (an init error ends the session by design)
}

var c16Cur *c16Recv

type c16RT struct{}

func (c16RT) RoundTrip(req *http.Request) (*http.Response, error) {
	rc, s := c16Cur, vrt.Cur()
	if rc == nil || s == nil {
		return nil, errors.New("c16: no scripted receiver")
	}
	s.Point("net-connect")
	if err := req.Context().Err(); err != nil {
		return nil, err
	}
	e := &c16Req{Path: req.URL.Path, Hdr: req.Header.Clone(), StartNS: s.Now(), Idx: len(rc.log),
		Chunked: req.ContentLength <= 0 && req.Body != nil && req.Body != http.NoBody}
	rc.log = append(rc.log, e)
	if req.Body != nil {
		b, _ := io.ReadAll(req.Body)
		_ = req.Body.Close()
		e.Body = b
	}
	ans := 0
	if rc.devs {
		ans = vrt.Choose(6, "receiver-answer")
	}
	status := 200
	switch ans {
	case 1:
		status = 500
	case 2:
		status = 401
	case 3:
		s.Sleep(rc.slowNS)
	case 4:
		status = 201 // a receiver may acknowledge an upload with any 2xx status: the session goes on exactly as with 200
	case 5:
		status = 204
	}
	if ans != 0 && ans < 4 {
		rc.devsUsed++
		if top, err := vref.Boxes(e.Body); err == nil && vref.Find(top, "moov") != nil && ans != 3 {
			rc.initDevs++
		}
	}
	s.Point("net-response")
	if err := req.Context().Err(); err != nil {
		return nil, err
	}
	e.Status = status
	return &http.Response{StatusCode: status, Status: fmt.Sprintf("%d %s", status, http.StatusText(status)), Proto: "HTTP/1.1", ProtoMajor: 1, ProtoMinor: 1,
		Header: http.Header{}, Body: io.NopCloser(bytes.NewReader(nil)), Request: req}, nil
}

type c16Cfg struct {
	asset    string // asset path below the VoD root ("" = testpic_2s)
	segMS    int    // segment duration in ms (0 = 2000)
	name     string
	prefix   string // URL configuration part, e.g. "segtimeline_1/"
	mpd      string
	timeAddr bool
	atoMS    int
	streams  bool
	user     string
	pass     string
	snr      int          // snr_ value in the prefix: segment numbers are that much higher
	va       *vref.VAsset // set for an asset whose segment durations vary: numbers and instants come from the reference model of the asset
}

func (c c16Cfg) assetPath() string {
	if c.asset == "" {
		return "testpic_2s"
	}
	return c.asset
}

func (c c16Cfg) segDurMS() int64 {
	if c.segMS == 0 {
		return c16SegMS
	}
	return int64(c.segMS)
}

func (c c16Cfg) livesimURL() string { return "/livesim2/" + c.prefix + c.assetPath() + "/" + c.mpd }

type c16Rep struct {
	id    string
	ctype string
	media string // media template of the live MPD
	init  string
}

const c16SegMS = 2000

var c16Ext = map[string]string{"video": ".cmfv", "audio": ".cmfa", "text": ".cmft"}
var c16Mime = map[string]string{"video": "video/mp4", "audio": "audio/mp4", "text": "application/mp4"}

type c16Env struct {
	srv   *Server
	rep   *vh.Report
	reps  map[string][]c16Rep  // by livesim URL
	inits map[string]vref.Init // served init by cfg|rep
	refs  map[string][]byte    // served media bodies by URL
}

func (e *c16Env) repsOf(c c16Cfg) ([]c16Rep, error) {
	u := c.livesimURL()
	if r, ok := e.reps[u]; ok {
		return r, nil
	}
	r := vGet(e.srv, u+"?nowMS=100000")
	if r.Code != 200 {
		return nil, fmt.Errorf("%s: %d", u, r.Code)
	}
	m, err := vref.ParseMPD(r.Body)
	if err != nil {
		return nil, err
	}
	var out []c16Rep
	for _, as := range m.Periods[0].AS {
		for _, rp := range as.Reps {
			ct := as.ContentType
			if ct == "" {
				ct = strings.SplitN(as.MimeType, "/", 2)[0]
			}
			if ct == "application" {
				ct = "text"
			}
			st := as.Template(&rp)
			r := c16Rep{id: rp.ID, ctype: ct}
			if st != nil {
				r.media, r.init = st.Media, st.Initialization
			}
			out = append(out, r)
		}
	}
	e.reps[u] = out
	return out, nil
}

// ref returns what livesim2 itself serves for the segment addressed by addr (number or time).
func (e *c16Env) ref(c c16Cfg, rep string, addr uint64, nr uint32) ([]byte, int) {
	late := (int64(nr)-int64(c.snr)+1)*c.segDurMS() + 4000
	if c.va != nil {
		late = vref.TicksToMSCeil(c.va.Ref.LiveEnd(int64(nr)), c.va.Ref.TS) + 4000
	}
	name := fmt.Sprintf("%s/%d.m4s", rep, addr)
	if reps, err := e.repsOf(c); err == nil {
		for _, r := range reps {
			if r.id == rep && r.media != "" {
				name = vref.ExpandURL(r.media, rep, 0, int64(addr), addr)
			}
		}
	}
	u := fmt.Sprintf("/livesim2/%s%s/%s?nowMS=%d", c.prefix, c.assetPath(), name, late)
	if b, ok := e.refs[u]; ok {
		return b, 200
	}
	r := vGet(e.srv, u)
	if r.Code != 200 {
		return nil, r.Code
	}
	e.refs[u] = r.Body
	return r.Body, 200
}

func (e *c16Env) servedInit(c c16Cfg, rep string) (vref.Init, bool) {
	k := c.prefix + "|" + c.assetPath() + "|" + rep
	if in, ok := e.inits[k]; ok {
		return in, true
	}
	name := rep + "/init.mp4"
	if reps, err := e.repsOf(c); err == nil {
		for _, r := range reps {
			if r.id == rep && r.init != "" {
				name = vref.ExpandURL(r.init, rep, 0, 0, 0)
			}
		}
	}
	r := vGet(e.srv, fmt.Sprintf("/livesim2/%s%s/%s?nowMS=100000", c.prefix, c.assetPath(), name))
	if r.Code != 200 {
		return vref.Init{}, false
	}
	in, err := vref.ParseInit(r.Body)
	if err != nil {
		return vref.Init{}, false
	}
	e.inits[k] = *in
	return *in, true
}

// c16Session is what one execution knows about one created session.
type c16Session struct {
	cfg      c16Cfg
	id       string
	dest     string
	createNS int64
	testNow  *int
	dur      *int
	steps    int   // completed step calls
	deleted  int   // index into the receiver log at the time the DELETE call returned (-1 = not deleted)
	firstLo  int64 // acceptable range of the first media number
	firstHi  int64
}

func (e *c16Env) api(method, path string, body any) (int, map[string]any) {
	var b []byte
	if body != nil {
		b, _ = json.Marshal(body)
	}
	var rd io.Reader
	if b != nil {
		rd = bytes.NewReader(b)
	}
	req, _ := http.NewRequest(method, path, rd)
	req.RemoteAddr = "127.0.0.1:999"
	if b != nil {
		req.Header.Set("Content-Type", "application/json")
	}
	w := &c16RW{h: http.Header{}}
	e.srv.Router.ServeHTTP(w, req)
	out := map[string]any{}
	_ = json.Unmarshal(w.buf.Bytes(), &out)
	if w.code == 0 {
		w.code = 200
	}
	return w.code, out
}

type c16RW struct {
	h    http.Header
	buf  bytes.Buffer
	code int
}

func (w *c16RW) Header() http.Header         { return w.h }
func (w *c16RW) Write(b []byte) (int, error) { return w.buf.Write(b) }
func (w *c16RW) WriteHeader(c int) {
	if w.code == 0 {
		w.code = c
	}
}

func (e *c16Env) create(s *vrt.Sched, c c16Cfg, dest string, testNow, dur *int) (*c16Session, error) {
	setup := map[string]any{"destRoot": "http://receiver.test/up", "destName": dest, "livesimURL": c.livesimURL(), "streamsURLs": c.streams}
	if c.user != "" {
		setup["user"] = c.user
	}
	if c.pass != "" {
		setup["password"] = c.pass
	}
	if testNow != nil {
		setup["testNowMS"] = *testNow
	}
	if dur != nil {
		setup["duration"] = *dur
	}
	createNS := s.Now()
	code, out := e.api("POST", "/api/cmaf-ingests", setup)
	if code != 201 {
		return nil, fmt.Errorf("create answered %d %v", code, out)
	}
	id, _ := out["id"].(string)
	ss := &c16Session{cfg: c, id: id, dest: "/up/" + dest, createNS: createNS, testNow: testNow, dur: dur, deleted: -1}
	return ss, nil
}

// firstNr: the first segment that is not yet available at nowMS.
func c16FirstNr(nowMS int64, atoMS int) int64 { return (nowMS + int64(atoMS)) / c16SegMS }

func (c c16Cfg) firstNr(nowMS int64, atoMS int) int64 {
	if c.snr != 0 {
		d := c
		d.snr = 0
		return d.firstNr(nowMS, atoMS) + int64(c.snr)
	}
	if c.va != nil {
		return c.va.Ref.LastEnded(nowMS, int64(atoMS)) + 1
	}
	return (nowMS + int64(atoMS)) / c.segDurMS()
}

func (e *c16Env) step(ss *c16Session) bool {
	code, _ := e.api("GET", "/api/cmaf-ingests/"+ss.id+"/step", nil)
	if code == 200 {
		ss.steps++
	}
	return code == 200
}

// wait lets 12 s of virtual time pass (more than two slow answers plus a paced segment) (chunked delivery is paced on the clock) and then waits
// until nothing can run any more.
func c16Wait(s *vrt.Sched) {
	s.Sleep(12000 * 1e6)
	s.Settle()
}

// stepAsync issues the step call from a client of its own: a step on a session that has ended
// (receiver error, duration reached) never returns, which the statement does not cover.
func (e *c16Env) stepAsync(s *vrt.Sched, ss *c16Session) {
	vrt.Go(func() { e.step(ss) })
	c16Wait(s)
}

func (e *c16Env) del(ss *c16Session) int {
	code, _ := e.api("DELETE", "/api/cmaf-ingests/"+ss.id, nil)
	ss.deleted = len(c16Cur.log)
	return code
}

// endpoint key of a request path for a session, "" if it is not below the session's destination
func (ss *c16Session) endpoint(path string, reps []c16Rep) (rep c16Rep, isInit bool, addr int64, ok bool) {
	if !strings.HasPrefix(path, ss.dest+"/") {
		return
	}
	rest := path[len(ss.dest)+1:]
	for _, r := range reps {
		ext := c16Ext[r.ctype]
		if ss.cfg.streams {
			if rest == "Streams("+r.id+ext+")" {
				return r, false, -1, true
			}
			continue
		}
		if strings.HasPrefix(rest, r.id+"/") && strings.HasSuffix(rest, ext) {
			name := strings.TrimSuffix(rest[len(r.id)+1:], ext)
			if name == "init" {
				return r, true, -1, true
			}
			n, err := strconv.ParseInt(name, 10, 64)
			if err == nil {
				return r, false, n, true
			}
		}
	}
	return
}

type c16Want struct {
	exactMedia int  // -1 = no exact count
	exactHi    int  // if > exactMedia: any count in [exactMedia, exactHi] is accepted (duration not a multiple of the segment duration)
	lastMarked bool // the last media segment must carry lmsg
	stopped    bool // the session must have ended
	noDevsOnly bool // exact count only holds when the receiver answered 200 throughout
}

// check evaluates the per-endpoint clauses on the receiver log.
func (e *c16Env) check(s *vrt.Sched, ss *c16Session, want c16Want, tag string) {
	rc := c16Cur
	reps, err := e.repsOf(ss.cfg)
	if err != nil {
		s.Fail("setup", err.Error())
		return
	}
	type epT struct {
		rep  c16Rep
		reqs []*c16Req
	}
	eps := map[string]*epT{}
	for _, r := range reps {
		eps[r.id] = &epT{rep: r}
	}
	fail := func(clause, sig, msg string) { s.Fail(clause+":"+sig+":"+tag, msg) }
	for _, q := range rc.log {
		rep, isInit, addr, ok := ss.endpoint(q.Path, reps)
		if !ok {
			if strings.HasPrefix(q.Path, ss.dest+"/") {
				fail("C16.addr", "unexpected-path", fmt.Sprintf("request to %s is not an endpoint of any representation (%v, streams=%v)", q.Path, reps, ss.cfg.streams))
			}
			continue
		}
		_ = isInit
		_ = addr
		eps[rep.id].reqs = append(eps[rep.id].reqs, q)
		// deleting the session stops it
		if ss.deleted >= 0 && q.Idx >= ss.deleted {
			fail("C16.delete", "request-after-delete", fmt.Sprintf("%s was sent after DELETE of the session had been answered", q.Path))
		}
		// headers
		e.rep.Hit("C16.headers")
		if got := q.Hdr.Get("Content-Type"); got != c16Mime[rep.ctype] {
			fail("C16.headers", "content-type", fmt.Sprintf("%s: Content-Type %q, want %q", q.Path, got, c16Mime[rep.ctype]))
		}
		if got := q.Hdr.Get("DASH-IF-Ingest"); got != "1.1" {
			fail("C16.headers", "ingest-version", fmt.Sprintf("%s: DASH-IF-Ingest %q", q.Path, got))
		}
		auth := q.Hdr.Get("Authorization")
		if ss.cfg.user != "" && ss.cfg.pass != "" {
			rq := http.Request{Header: q.Hdr}
			u, p, ok := rq.BasicAuth()
			if !ok || u != ss.cfg.user || p != ss.cfg.pass {
				fail("C16.headers", "credentials", fmt.Sprintf("%s: Authorization %q does not carry the configured credentials", q.Path, auth))
			}
		} else if ss.cfg.user == "" && ss.cfg.pass == "" && auth != "" {
			fail("C16.headers", "credentials-unconfigured", fmt.Sprintf("%s: Authorization %q although none configured", q.Path, auth))
		}
	}
	ids := make([]string, 0, len(eps))
	for id := range eps {
		ids = append(ids, id)
	}
	sort.Strings(ids)
	counts := map[string]int{}
	for _, id := range ids {
		ep := eps[id]
		var prevSeq, prevEnd int64 = -1, -1
		nMedia := 0
		var lastMedia *vref.Seg
		for i, q := range ep.reqs {
			_, isInit, addr, _ := ss.endpoint(q.Path, reps)
			top, err := vref.Boxes(q.Body)
			bodyIsInit := err == nil && vref.Find(top, "moov") != nil
			if ss.cfg.streams {
				isInit = bodyIsInit
			}
			if i == 0 {
				e.rep.Hit("C16.order")
				if !isInit || !bodyIsInit {
					fail("C16.order", "init-not-first", fmt.Sprintf("endpoint %s: first request is %s (init body: %v)", id, q.Path, bodyIsInit))
				}
				if bodyIsInit {
					in, err := vref.ParseInit(q.Body)
					if err != nil {
						fail("C16.body", "init-unparsable", fmt.Sprintf("endpoint %s: %v", id, err))
					} else if sv, ok := e.servedInit(ss.cfg, id); ok {
						e.rep.Hit("C16.body")
						if in.Timescale != sv.Timescale || in.SampleEntry != sv.SampleEntry {
							fail("C16.body", "init-other-track", fmt.Sprintf("endpoint %s: init has timescale %d / %s, livesim2 serves %d / %s", id, in.Timescale, in.SampleEntry, sv.Timescale, sv.SampleEntry))
						}
					}
				}
				continue
			}
			if isInit || bodyIsInit {
				fail("C16.order", "second-init", fmt.Sprintf("endpoint %s: request %d (%s) is another init segment", id, i, q.Path))
				continue
			}
			if q.Status == 0 && len(q.Body) == 0 {
				continue // aborted before anything was transferred
			}
			in, _ := e.servedInit(ss.cfg, id)
			sg, err := vref.ParseSegment(q.Body, in.Trex)
			if err != nil || len(sg.Frags) == 0 {
				if q.Status == 0 {
					continue // client gave up in the middle of the transfer
				}
				fail("C16.body", "media-unparsable", fmt.Sprintf("endpoint %s: %s: %v", id, q.Path, err))
				continue
			}
			nMedia++
			seq := int64(sg.Frags[0].Seq)
			e.rep.Hit("C16.numbering")
			if prevSeq < 0 {
				if seq < ss.firstLo || seq > ss.firstHi {
					fail("C16.numbering", "first-not-after-live-edge", fmt.Sprintf("endpoint %s: first media segment has number %d, the first one after the live edge is %d..%d", id, seq, ss.firstLo, ss.firstHi))
				}
			} else {
				switch {
				case seq == prevSeq:
					fail("C16.numbering", "duplicate", fmt.Sprintf("endpoint %s: number %d sent twice", id, seq))
				case seq < prevSeq:
					fail("C16.numbering", "reordered", fmt.Sprintf("endpoint %s: number %d after %d", id, seq, prevSeq))
				case seq > prevSeq+1:
					fail("C16.numbering", "gap", fmt.Sprintf("endpoint %s: number %d after %d", id, seq, prevSeq))
				}
				if prevEnd >= 0 && int64(sg.Start()) != prevEnd {
					fail("C16.numbering", "time-not-contiguous", fmt.Sprintf("endpoint %s: segment %d starts at %d, the previous one ended at %d", id, seq, sg.Start(), prevEnd))
				}
			}
			prevSeq, prevEnd = seq, int64(sg.Start()+sg.Dur())
			// address in the URL
			if !ss.cfg.streams {
				wantAddr := seq
				if ss.cfg.timeAddr {
					wantAddr = int64(sg.Start())
				}
				if addr != wantAddr {
					fail("C16.addr", "path-number", fmt.Sprintf("endpoint %s: %s carries segment number %d / time %d", id, q.Path, seq, sg.Start()))
				}
			}
			// body identical to what livesim2 serves
			refAddr := uint64(seq)
			if ss.cfg.timeAddr {
				refAddr = sg.Start()
			}
			ref, code := e.ref(ss.cfg, id, refAddr, uint32(seq))
			e.rep.Hit("C16.body")
			if code != 200 {
				fail("C16.body", fmt.Sprintf("not-served-%d", code), fmt.Sprintf("endpoint %s: livesim2 answers %d for segment %d that the sender delivered", id, code, refAddr))
			} else if !bytes.Equal(ref, q.Body) {
				if !c16EqualButLmsg(ref, q.Body) {
					fail("C16.body", "differs-from-served", fmt.Sprintf("endpoint %s: body of %s (%d bytes) differs from what livesim2 serves for it (%d bytes)", id, q.Path, len(q.Body), len(ref)))
				}
			}
			sgc := *sg
			lastMedia = &sgc
			if c16HasLmsg(q.Body) && i != len(ep.reqs)-1 {
				fail("C16.last", "lmsg-not-last", fmt.Sprintf("endpoint %s: %s is marked as last but more follow", id, q.Path))
			}
			if i == len(ep.reqs)-1 && want.lastMarked && (!want.noDevsOnly || rc.initDevs == 0) {
				e.rep.Hit("C16.last")
				if !c16HasLmsg(q.Body) {
					fail("C16.last", "last-not-marked", fmt.Sprintf("endpoint %s: the session ended with %s, which is not marked lmsg", id, q.Path))
				}
			}
		}
		_ = lastMedia
		counts[id] = nMedia
		if want.exactMedia >= 0 && (!want.noDevsOnly || rc.initDevs == 0) {
			e.rep.Hit("C16.count")
			if nMedia != want.exactMedia && !(want.exactHi > want.exactMedia && nMedia > want.exactMedia && nMedia <= want.exactHi) {
				fail("C16.count", fmt.Sprintf("media-%+d", nMedia-want.exactMedia), fmt.Sprintf("endpoint %s received %d media segments, expected %d (%s)", id, nMedia, want.exactMedia, tag))
			}
		}
	}
	if want.stopped {
		e.rep.Hit("C16.delete")
		// (that the session goroutine has returned is not judged: the statement is about what the
		// receiver gets; a session that hangs after DELETE sends nothing more)
		if ing := e.srv.cmafMgr.ingesters[c16ID(ss.id)]; ing != nil && ing.state != ingesterStateStopped {
			e.rep.Note("observation (not judged): session goroutine still alive after its end (%s); threads %v", tag, s.Threads())
		}
	}
	var cs []string
	for _, id := range ids {
		cs = append(cs, fmt.Sprintf("%s=%d", id, counts[id]))
	}
	s.Observe(strings.Join(cs, ","))
}

func c16ID(s string) uint64 { n, _ := strconv.ParseUint(s, 10, 64); return n }

func c16HasLmsg(b []byte) bool {
	top, err := vref.Boxes(b)
	if err != nil {
		return false
	}
	st := vref.Find(top, "styp")
	if st == nil || len(st.Body) < 8 {
		return false
	}
	for i := 8; i+4 <= len(st.Body); i += 4 {
		if string(st.Body[i:i+4]) == "lmsg" {
			return true
		}
	}
	return false
}

// c16EqualButLmsg: b equals ref except for an additional lmsg compatible brand in styp.
func c16EqualButLmsg(ref, b []byte) bool {
	rt, err1 := vref.Boxes(ref)
	bt, err2 := vref.Boxes(b)
	if err1 != nil || err2 != nil || len(rt) != len(bt) {
		return false
	}
	for i := range rt {
		if rt[i].Type != bt[i].Type {
			return false
		}
		if rt[i].Type == "styp" {
			want := append(append([]byte{}, rt[i].Body...), []byte("lmsg")...)
			if !bytes.Equal(bt[i].Body, want) && !bytes.Equal(bt[i].Body, rt[i].Body) {
				return false
			}
			continue
		}
		if !bytes.Equal(rt[i].Body, bt[i].Body) {
			return false
		}
	}
	return c16HasLmsg(b)
}

type c16Scenario struct {
	name string
	cfg  c16Cfg
	body func(e *c16Env, s *vrt.Sched, c c16Cfg)
	devs bool
}

func c16P(i int) *int { return &i }

func TestVerifC16(t *testing.T) {
	rep := vh.NewReport("C16")
	defer rep.Write()
	quick := vh.Quick()
	srv, err := vServer(vBundledRoot)
	if err != nil {
		t.Fatalf("server: %v", err)
	}
	http.DefaultClient.Transport = c16RT{}
	env := &c16Env{srv: srv, rep: rep, reps: map[string][]c16Rep{}, inits: map[string]vref.Init{}, refs: map[string][]byte{}}

	cfgs := []c16Cfg{
		{name: "number", prefix: "", mpd: "Manifest.mpd"},
		{name: "tltime", prefix: "segtimeline_1/", mpd: "Manifest.mpd", timeAddr: true},
		{name: "tlnr", prefix: "segtimelinenr_1/", mpd: "Manifest.mpd"},
		{name: "tltime-imsc1", prefix: "segtimeline_1/", mpd: "Manifest_imsc1.mpd", timeAddr: true},
		{name: "number-timesubs", prefix: "timesubsstpp_en/", mpd: "Manifest.mpd"},
		{name: "number-chunked", prefix: "ato_1/chunkdur_1000/", mpd: "Manifest.mpd", atoMS: 1000},
		{name: "tltime-chunked", prefix: "segtimeline_1/ato_1/chunkdur_1000/", mpd: "Manifest.mpd", timeAddr: true, atoMS: 1000},
		{name: "number-streams", prefix: "", mpd: "Manifest.mpd", streams: true},
		{name: "tltime-streams-auth", prefix: "segtimeline_1/", mpd: "Manifest.mpd", timeAddr: true, streams: true, user: "u", pass: "p"},
		{name: "number-auth", prefix: "", mpd: "Manifest.mpd", user: "user", pass: "secret"},
		{name: "number-useronly", prefix: "", mpd: "Manifest.mpd", user: "user"},
		{name: "tltime-timesubs", prefix: "segtimeline_1/timesubsstpp_en,sv/", mpd: "Manifest.mpd", timeAddr: true},
		{name: "wave2997-number", asset: "WAVE/vectors/cfhd_sets/14.985_29.97_59.94/t1/2022-10-17", segMS: 2002, mpd: "stream.mpd"},
		{name: "wave2997-tltime", asset: "WAVE/vectors/cfhd_sets/14.985_29.97_59.94/t1/2022-10-17", segMS: 2002, prefix: "segtimeline_1/", mpd: "stream.mpd", timeAddr: true},
		{name: "testpic8s-number", asset: "testpic_8s", segMS: 8000, mpd: "Manifest.mpd"},
		// chunks of more than 64 KiB (the sender hands a chunk to the request body in pieces of that size)
		{name: "testpic8s-chunked", asset: "testpic_8s", segMS: 8000, prefix: "ato_1/chunkdur_1000/", mpd: "Manifest.mpd", atoMS: 1000},
		{name: "number-snr3", prefix: "snr_3/", mpd: "Manifest.mpd", snr: 3},
		{name: "tlnr-snr3", prefix: "segtimelinenr_1/snr_3/", mpd: "Manifest.mpd", snr: 3},
	}
	// alternating 4 s / 8 s segments: the step following a short segment and the one following a long one
	if va, err := vAsset(vBundledRoot, "testpic_alt_seg_dur_stl"); err == nil {
		cfgs = append(cfgs, c16Cfg{name: "altdur-number", asset: "testpic_alt_seg_dur_stl", mpd: "Manifest.mpd", va: va},
			c16Cfg{name: "altdur-tltime", asset: "testpic_alt_seg_dur_stl", prefix: "segtimeline_1/", mpd: "Manifest.mpd", timeAddr: true, va: va})
	}
	const rtStartMS = int64(1_700_000_000_700)

	newMgr := func() {
		srv.cmafMgr = NewCmafIngesterMgr(srv)
		srv.cmafMgr.Start()
	}
	finish := func(e *c16Env, s *vrt.Sched, ss *c16Session, want c16Want, tag string) {
		if code := e.del(ss); code != 200 {
			s.Fail("C16.delete:status:"+tag, fmt.Sprintf("DELETE answered %d", code))
		}
		c16Wait(s)
		want.stopped = true
		e.check(s, ss, want, tag)
	}
	var scenarios []c16Scenario
	add := func(name string, c c16Cfg, devs bool, body func(e *c16Env, s *vrt.Sched, c c16Cfg)) {
		scenarios = append(scenarios, c16Scenario{name: c.name + "/" + name, cfg: c, devs: devs, body: body})
	}
	stepNows := []int{10000, 11999}
	if !quick {
		stepNows = append(stepNows, 7999, 1_700_000_000_700)
	}
	maxK := 3
	if !quick {
		maxK = 4
	}
	for _, c := range cfgs {
		nows := stepNows
		if c.va != nil {
			nows = []int{25000, 30000, 37000}
		}
		for _, now := range nows {
			for k := 0; k <= maxK; k++ {
				if quick && (k == 0 || k == 2) && now != 10000 && c.va == nil {
					continue
				}
				if c.va != nil && k < 3 {
					continue
				}
				now, k := now, k
				// P1: k steps, each delivers exactly one segment per representation
				add(fmt.Sprintf("steps-%d@%d", k, now), c, k <= 2, func(e *c16Env, s *vrt.Sched, c c16Cfg) {
					ss, err := e.create(s, c, "p1", c16P(now), nil)
					if err != nil {
						s.Fail("setup", err.Error())
						return
					}
					ss.firstLo, ss.firstHi = c.firstNr(int64(now), 0), c.firstNr(int64(now), c.atoMS)
					for i := 0; i < k; i++ {
						e.stepAsync(s, ss)
						e.check(s, ss, c16Want{exactMedia: i + 1, noDevsOnly: true}, fmt.Sprintf("after-step-%d", i+1))
					}
					finish(e, s, ss, c16Want{exactMedia: k, noDevsOnly: true}, "end")
				})
			}
		}
	}
	for _, c := range cfgs {
		c := c
		if c.va != nil {
			continue // the remaining programs count segments by a constant duration
		}
		// P2: DELETE concurrent with a stepping client
		add("steps+delete", c, false, func(e *c16Env, s *vrt.Sched, c c16Cfg) {
			ss, err := e.create(s, c, "p2", c16P(10000), nil)
			if err != nil {
				s.Fail("setup", err.Error())
				return
			}
			ss.firstLo, ss.firstHi = c.firstNr(10000, 0), c.firstNr(10000, c.atoMS)
			vrt.Go(func() { // a step after the session has ended blocks for ever: daemon
				e.step(ss)
				e.step(ss)
			})
			d := s.Spawn("deleter", func() { e.del(ss) })
			s.Join(d)
			c16Wait(s)
			e.check(s, ss, c16Want{exactMedia: -1, stopped: true}, "concurrent-delete")
		})
		// P3: info calls concurrent with a stepping client (race freedom of report/state)
		if c.name == "number" || c.name == "tltime-chunked" || !quick {
			add("steps+info", c, false, func(e *c16Env, s *vrt.Sched, c c16Cfg) {
				ss, err := e.create(s, c, "p3", c16P(10000), nil)
				if err != nil {
					s.Fail("setup", err.Error())
					return
				}
				ss.firstLo, ss.firstHi = c.firstNr(10000, 0), c.firstNr(10000, c.atoMS)
				h := s.Spawn("info", func() {
					for i := 0; i < 2; i++ {
						if code, _ := e.api("GET", "/api/cmaf-ingests/"+ss.id, nil); code != 200 {
							s.Fail("C16.api:info-status", fmt.Sprintf("info answered %d", code))
						}
					}
				})
				e.step(ss)
				s.Join(h)
				c16Wait(s)
				finish(e, s, ss, c16Want{exactMedia: 1}, "info")
			})
		}
		// P4: two sessions created and stepped by two concurrent clients
		if c.name == "number" || c.name == "tltime-imsc1" || !quick {
			add("two-sessions", c, false, func(e *c16Env, s *vrt.Sched, c c16Cfg) {
				var sss [2]*c16Session
				var hs []*vrt.Handle
				for i := 0; i < 2; i++ {
					i := i
					hs = append(hs, s.Spawn(fmt.Sprintf("client%d", i), func() {
						ss, err := e.create(s, c, fmt.Sprintf("p4-%d", i), c16P(10000+2000*i), nil)
						if err != nil {
							s.Fail("C16.api:create", err.Error())
							return
						}
						ss.firstLo, ss.firstHi = c.firstNr(int64(10000+2000*i), 0), c.firstNr(int64(10000+2000*i), c.atoMS)
						sss[i] = ss
						e.step(ss)
						e.step(ss)
					}))
				}
				s.Join(hs...)
				c16Wait(s)
				for i, ss := range sss {
					if ss != nil {
						finish(e, s, ss, c16Want{exactMedia: 2}, fmt.Sprintf("session-%d", i))
					}
				}
				if sss[0] != nil && sss[1] != nil && sss[0].id == sss[1].id {
					s.Fail("C16.api:same-id", "two sessions got the same id "+sss[0].id)
				}
			})
		}
		// P5: real-time session, deleted after a while
		for _, after := range []int64{1000, 5000, 7300} {
			after := after
			if quick && after == 1000 && c.name != "number" {
				continue
			}
			add(fmt.Sprintf("realtime-delete@%d", after), c, after != 7300, func(e *c16Env, s *vrt.Sched, c c16Cfg) {
				ss, err := e.create(s, c, "p5", nil, nil)
				if err != nil {
					s.Fail("setup", err.Error())
					return
				}
				ss.firstLo = c.firstNr(rtStartMS, 0)
				ss.firstHi = c.firstNr(rtStartMS+after, c.atoMS) + 1
				s.Sleep(after * 1e6)
				if code := e.del(ss); code != 200 {
					s.Fail("C16.delete:status", fmt.Sprintf("DELETE answered %d", code))
				}
				s.Sleep(6000 * 1e6)
				s.Settle()
				e.check(s, ss, c16Want{exactMedia: -1, stopped: true}, "realtime")
			})
		}
		// P6: duration: the session ends by itself after duration/segment duration segments
		for _, d := range []int{4, 6} {
			d := d
			if quick && d == 6 && c.name != "number" && c.name != "tltime-chunked" {
				continue
			}
			add(fmt.Sprintf("realtime-duration-%d", d), c, true, func(e *c16Env, s *vrt.Sched, c c16Cfg) {
				ss, err := e.create(s, c, "p6", nil, c16P(d))
				if err != nil {
					s.Fail("setup", err.Error())
					return
				}
				ss.firstLo = c.firstNr(rtStartMS, 0)
				ss.firstHi = ss.firstLo + 2
				s.Sleep(int64(d+14) * 1000 * 1e6)
				s.Settle()
				lo := d * 1000 / int(c.segDurMS())
				hi := (d*1000 + int(c.segDurMS()) - 1) / int(c.segDurMS())
				e.check(s, ss, c16Want{exactMedia: lo, exactHi: hi, lastMarked: true, stopped: true, noDevsOnly: true}, "duration")
				finish(e, s, ss, c16Want{exactMedia: lo, exactHi: hi, lastMarked: true, noDevsOnly: true}, "duration-end")
			})
			if d == 4 {
				// a session of exactly one segment that starts inside the very first segment of the stream (last number 0)
				add("steps-duration-one-segment@first", c, false, func(e *c16Env, s *vrt.Sched, c c16Cfg) {
					one := int(c.segDurMS()+999) / 1000
					ss, err := e.create(s, c, "p8", c16P(int(c.segDurMS()/2)), c16P(one))
					if err != nil {
						s.Fail("setup", err.Error())
						return
					}
					ss.firstLo, ss.firstHi = 0, c.firstNr(c.segDurMS()/2, c.atoMS)
					vrt.Go(func() {
						for i := 0; i < 3; i++ {
							e.step(ss)
						}
					})
					s.Sleep(int64(one+10) * 1000 * 1e6)
					s.Settle()
					e.check(s, ss, c16Want{exactMedia: one * 1000 / int(c.segDurMS()), exactHi: (one*1000 + int(c.segDurMS()) - 1) / int(c.segDurMS()), lastMarked: true, stopped: true}, "one-segment")
				})
			}
			add(fmt.Sprintf("steps-duration-%d", d), c, false, func(e *c16Env, s *vrt.Sched, c c16Cfg) {
				ss, err := e.create(s, c, "p7", c16P(10000), c16P(d))
				if err != nil {
					s.Fail("setup", err.Error())
					return
				}
				ss.firstLo, ss.firstHi = c.firstNr(10000, 0), c.firstNr(10000, c.atoMS)
				vrt.Go(func() {
					for i := 0; i < d/2+2; i++ {
						e.step(ss)
					}
				})
				s.Sleep(int64(d+8) * 1000 * 1e6)
				s.Settle()
				e.check(s, ss, c16Want{exactMedia: d * 1000 / int(c.segDurMS()), exactHi: (d*1000 + int(c.segDurMS()) - 1) / int(c.segDurMS()), lastMarked: true, stopped: true}, "step-duration")
			})
		}
	}

	bound := 1
	if !quick {
		bound = 2
	}
	rep.Bound = bound
	sh, nsh := vh.Shard()
	_ = sh
	_ = nsh
	if dbg := os.Getenv("VERIF_C16_DEBUG"); dbg != "" {
		// "<scenario>|<c0,c1,...>": one traced execution
		p := strings.SplitN(dbg, "|", 2)
		var ch []int
		if len(p) > 1 && p[1] != "" {
			for _, x := range strings.Split(p[1], ",") {
				n, _ := strconv.Atoi(strings.TrimSpace(x))
				ch = append(ch, n)
			}
		}
		for _, sc := range scenarios {
			if sc.name != p[0] {
				continue
			}
			x := vrt.Run(ch, vrt.RunOpts{Race: true, AllowBlockedDaemons: true, NoUnlockPoints: true, StartNS: rtStartMS * 1e6, WatchdogS: 120, Horizon: 400000, Trace: true, EndWithMain: true}, func(s *vrt.Sched) {
				newMgr()
				c16Cur = &c16Recv{devs: sc.devs, slowNS: 2500 * 1e6}
				sc.body(env, s, sc.cfg)
			})
			for _, l := range x.Trace {
				fmt.Println("TRACE", l)
			}
			for _, q := range c16Cur.log {
				fmt.Printf("REQ %d t=%d %s status=%d len=%d chunked=%v\n", q.Idx, q.StartNS/1e6-rtStartMS, q.Path, q.Status, len(q.Body), q.Chunked)
			}
			for _, f := range x.Fails {
				fmt.Println("FAIL", f.Sig, f.Msg, "\n", f.Stack)
			}
			fmt.Println("POINTS", len(x.Points), "hung", x.Hung, "cap", x.CapHit)
		}
		return
	}
	for si, sc := range scenarios {
		if !vh.Mine(si) {
			continue
		}
		if rep.OutOfBudget() {
			rep.Cap("budget")
			break
		}
		sc := sc
		body := func(s *vrt.Sched) {
			newMgr()
			c16Cur = &c16Recv{devs: sc.devs, slowNS: 2500 * 1e6}
			sc.body(env, s, sc.cfg)
		}
		opts := vrt.RunOpts{Race: true, AllowBlockedDaemons: true, NoUnlockPoints: true, StartNS: rtStartMS * 1e6, WatchdogS: 120, Horizon: 400000, EndWithMain: true}
		maxExec := 1500
		if !quick {
			maxExec = 20000
		}
		st := vrt.Explore(vrt.ExploreOpts{RunOpts: opts, Bound: bound, MaxExec: maxExec, DeadlineUnix: rep.DeadlineUnix(), FreeCost: 1}, body)
		if !st.Hung {
			// the neighbourhood of the second canonical schedule (threads started later run first), one deviation
			ropts := opts
			ropts.ReverseOrder = true
			st2 := vrt.Explore(vrt.ExploreOpts{RunOpts: ropts, Bound: 1, MaxExec: maxExec, DeadlineUnix: rep.DeadlineUnix(), FreeCost: 1}, body)
			st.Executions += st2.Executions
			st.Points += st2.Points
			st.Hung = st2.Hung
			for o, n := range st2.Outcomes {
				st.Outcomes[o] += n
			}
			st.CapsHit = append(st.CapsHit, st2.CapsHit...)
			have := map[string]bool{}
			for _, f := range st.Failures {
				have[f.Sig] = true
			}
			for _, f := range st2.Failures {
				if !have[f.Sig] {
					f.Sig2 = "reverse"
					st.Failures = append(st.Failures, f)
				}
			}
		}
		rep.AddExecs(int64(st.Executions))
		rep.AddStates(int64(st.Points))
		rep.AddTrans(int64(st.Points))
		rep.Hit("C16.race")
		for o, n := range st.Outcomes {
			rep.Outcomes[sc.name+"/"+o] += n
		}
		for _, c := range st.CapsHit {
			rep.Cap(sc.name + ":" + c)
		}
		rep.Extra["executions_"+sc.name] = st.Executions
		if si%7 == 0 && len(st.SampleSchedules) > 0 {
			rep.Sample(map[string]any{"scenario": sc.name, "executions": st.Executions, "max_points": st.MaxPoints, "threads": st.MaxThreads})
		}
		if st.Hung {
			// the abandoned execution's goroutines cannot be stopped: nothing after it in this process is trustworthy
			rep.Violate("C16.alive", "hang:"+strings.SplitN(sc.name, "/", 2)[1], "an execution did not finish: "+st.Failures[len(st.Failures)-1].Msg, map[string]any{"scenario": sc.name, "choices": st.Failures[len(st.Failures)-1].Choices})
			rep.Cap("hang")
			return
		}
		for _, f := range st.Failures {
			if strings.HasPrefix(f.Sig, "engine:") || f.Sig == "setup" {
				t.Fatalf("engine/setup error in %s: %s %s", sc.name, f.Sig, f.Msg)
			}
			clause, sig := "C16.alive", f.Sig
			switch {
			case strings.HasPrefix(f.Sig, "race:cmafIngesterMgr."):
				clause = "C16.race"
			case strings.HasPrefix(f.Sig, "race:"):
				// unsynchronised reads of a session's state/report by the info and delete calls do not
				// change what a receiver gets: recorded as an observation, not judged
				rep.Note("observation (not judged): %s in %s", f.Sig, sc.name)
				continue
			case strings.HasPrefix(f.Sig, "C16."):
				p := strings.SplitN(f.Sig, ":", 2)
				clause, sig = p[0], p[1]
			}
			okN := 0
			for k := 0; k < 3; k++ {
				o := opts
				o.ReverseOrder = f.Sig2 == "reverse"
				x := vrt.Run(f.Choices, o, body)
				for _, g := range x.Fails {
					if g.Sig == f.Sig {
						okN++
						break
					}
				}
			}
			if okN != 3 {
				t.Fatalf("engine error: failure %s of %s reproduced %d/3 times", f.Sig, sc.name, okN)
			}
			cfgName := sc.cfg.name
			if clause == "C16.race" || clause == "C16.alive" {
				sig = sig + ":" + strings.SplitN(sc.name, "/", 2)[1]
				cfgName = ""
			}
			_ = cfgName
			rep.Violate(clause, sig, f.Msg, map[string]any{"scenario": sc.name, "choices": f.Choices, "thread_order": vIf(f.Sig2 == "reverse", "descending", "ascending")})
		}
	}
}
