// Package vsync shadows "sync" for rewritten livesim2 sources: Mutex, RWMutex,
// WaitGroup and Once are modelled under the vrt scheduler and fall through to the
// real implementation when no controlled execution is active.
package vsync

import (
	"sync"

	"github.com/Dash-Industry-Forum/livesim2/internal/vshim/vrt"
)

type (
	Locker = sync.Locker
	Map    = sync.Map
	Cond   = sync.Cond
)

var NewCond = sync.NewCond

func OnceFunc(f func()) func() { return sync.OnceFunc(f) }

func OnceValue[T any](f func() T) func() T { return sync.OnceValue(f) }

func OnceValues[T1, T2 any](f func() (T1, T2)) func() (T1, T2) { return sync.OnceValues(f) }

type Mutex struct {
	real   sync.Mutex
	locked bool
	hb     vrt.Sync
}

func (m *Mutex) Lock() {
	s := vrt.Cur()
	if s == nil {
		m.real.Lock()
		return
	}
	s.Yield(&vrt.Op{Kind: "Mutex.Lock", Enabled: func() bool { return !m.locked }})
	m.locked = true
	s.Acquire(&m.hb)
}

func (m *Mutex) TryLock() bool {
	s := vrt.Cur()
	if s == nil {
		return m.real.TryLock()
	}
	s.Point("Mutex.TryLock")
	if m.locked {
		return false
	}
	m.locked = true
	s.Acquire(&m.hb)
	return true
}

func (m *Mutex) Unlock() {
	s := vrt.Cur()
	if s == nil {
		m.real.Unlock()
		return
	}
	s.UnlockPoint("Mutex.Unlock")
	if !m.locked {
		panic("sync: unlock of unlocked mutex")
	}
	s.ReleaseSet(&m.hb)
	m.locked = false
}

type RWMutex struct {
	real    sync.RWMutex
	writer  bool
	readers int
	hbW     vrt.Sync // released by writers (and joined by readers' releases for the next writer)
	hbR     vrt.Sync // released by readers
}

func (m *RWMutex) Lock() {
	s := vrt.Cur()
	if s == nil {
		m.real.Lock()
		return
	}
	s.Yield(&vrt.Op{Kind: "RWMutex.Lock", Enabled: func() bool { return !m.writer && m.readers == 0 }})
	m.writer = true
	s.Acquire(&m.hbW)
	s.Acquire(&m.hbR)
}

func (m *RWMutex) Unlock() {
	s := vrt.Cur()
	if s == nil {
		m.real.Unlock()
		return
	}
	s.UnlockPoint("RWMutex.Unlock")
	if !m.writer {
		panic("sync: Unlock of unlocked RWMutex")
	}
	s.ReleaseSet(&m.hbW)
	m.writer = false
}

func (m *RWMutex) RLock() {
	s := vrt.Cur()
	if s == nil {
		m.real.RLock()
		return
	}
	s.Yield(&vrt.Op{Kind: "RWMutex.RLock", Enabled: func() bool { return !m.writer }})
	m.readers++
	s.Acquire(&m.hbW)
}

func (m *RWMutex) RUnlock() {
	s := vrt.Cur()
	if s == nil {
		m.real.RUnlock()
		return
	}
	s.UnlockPoint("RWMutex.RUnlock")
	if m.readers <= 0 {
		panic("sync: RUnlock of unlocked RWMutex")
	}
	s.Release(&m.hbR)
	m.readers--
}

func (m *RWMutex) RLocker() Locker { return (*rlocker)(m) }

type rlocker RWMutex

func (r *rlocker) Lock()   { (*RWMutex)(r).RLock() }
func (r *rlocker) Unlock() { (*RWMutex)(r).RUnlock() }

type WaitGroup struct {
	real sync.WaitGroup
	n    int
	hb   vrt.Sync
}

func (w *WaitGroup) Add(d int) {
	s := vrt.Cur()
	if s == nil {
		w.real.Add(d)
		return
	}
	s.Point("WaitGroup.Add")
	if d < 0 {
		s.Release(&w.hb)
	}
	w.n += d
	if w.n < 0 {
		panic("sync: negative WaitGroup counter")
	}
}

func (w *WaitGroup) Done() { w.Add(-1) }

func (w *WaitGroup) Wait() {
	s := vrt.Cur()
	if s == nil {
		w.real.Wait()
		return
	}
	s.Yield(&vrt.Op{Kind: "WaitGroup.Wait", Enabled: func() bool { return w.n == 0 }})
	s.Acquire(&w.hb)
}

type Once struct {
	real sync.Once
	done bool
	m    Mutex
}

func (o *Once) Do(f func()) {
	s := vrt.Cur()
	if s == nil {
		o.real.Do(f)
		return
	}
	o.m.Lock()
	defer o.m.Unlock()
	if !o.done {
		defer func() { o.done = true }()
		f()
	}
}

// Pool models sync.Pool as a LIFO free list under the scheduler (the per-P cache of the real
// pool hands an object that was just Put to the next Get on the same P; LIFO makes that
// worst case for sharing deterministic). Get and Put are scheduling points; a Put happens
// before the Get that returns the object. Objects kept by a modelled pool live as long as
// the pool (no GC drain), which only adds reuse.
type Pool struct {
	New   func() any
	real  sync.Pool
	items []any
	hb    vrt.Sync
}

func (p *Pool) Get() any {
	s := vrt.Cur()
	if s == nil {
		if v := p.real.Get(); v != nil {
			return v
		}
		if p.New != nil {
			return p.New()
		}
		return nil
	}
	s.Point("Pool.Get")
	if n := len(p.items); n > 0 {
		v := p.items[n-1]
		p.items = p.items[:n-1]
		s.Acquire(&p.hb)
		return v
	}
	if p.New != nil {
		return p.New()
	}
	return nil
}

func (p *Pool) Put(x any) {
	s := vrt.Cur()
	if s == nil {
		p.real.Put(x)
		return
	}
	if x == nil {
		return
	}
	s.Release(&p.hb)
	p.items = append(p.items, x)
	s.Point("Pool.Put") // after the object is back in the pool: another thread may take it now
}
