package app

// C05 — the MPD only moves forward, and publishTime identifies its content.
// E3: a sorted walk over every breakpoint instant (+-1 ms) of a configuration; relations are
// checked on consecutive states (monotonicity follows for all pairs by transitivity) and by
// grouping the whole walk on publishTime.

import (
	"bytes"
	"fmt"
	"regexp"
	"sort"
	"strings"
	"testing"

	"github.com/Dash-Industry-Forum/livesim2/internal/vshim/vh"
	"github.com/Dash-Industry-Forum/livesim2/internal/vshim/vref"
)

type c05Cfg struct {
	root, asset, mpd string
	mode             string
	atoMS            int64
	tsbd             int64
	periods          int   // 0 none
	stop             int64 // 0 none; absolute seconds
	start            int64
	extra            string // one more URL parameter (e.g. utc_direct-httpisoms), "" none
}

func (c c05Cfg) parts() []string {
	var p []string
	switch c.mode {
	case "tltime":
		p = append(p, "segtimeline_1")
	case "tlnr":
		p = append(p, "segtimelinenr_1")
	}
	if c.start > 0 {
		p = append(p, fmt.Sprintf("start_%d", c.start))
	}
	if c.stop > 0 {
		p = append(p, fmt.Sprintf("stop_%d", c.stop))
	}
	p = append(p, fmt.Sprintf("tsbd_%d", c.tsbd))
	if c.atoMS > 0 {
		p = append(p, fmt.Sprintf("ato_%d.%03d", c.atoMS/1000, c.atoMS%1000))
	}
	if c.periods > 0 {
		p = append(p, fmt.Sprintf("periods_%d", c.periods))
	}
	if c.extra != "" {
		p = append(p, c.extra)
	}
	return p
}

func (c c05Cfg) String() string {
	return fmt.Sprintf("%s/%s %s", c.asset, c.mpd, strings.Join(c.parts(), "/"))
}

var c05PubRe = regexp.MustCompile(` publishTime="[^"]*"`)

type c05State struct {
	t         int64
	body      []byte
	pub       int64
	pubStr    string
	first     map[string]uint64 // per rep: time of first listed segment
	last      map[string]uint64
	nPeriods  int
	periodIDs string
	typ       string
}

func TestVerifC05(t *testing.T) {
	rep := vh.NewReport("C05")
	defer rep.Write()
	quick := vh.Quick()
	roots := []string{vBundledRoot}
	if g := vGenRoot(); g != "" {
		roots = append(roots, g)
		if x := vGenExtraRoot(); x != "" {
			roots = append(roots, x) // an asset without video: the audio track is the reference track
		}
	}
	var cfgs []c05Cfg
	for _, root := range roots {
		for _, ap := range vAssetPaths(root) {
			if !vExtraWanted(root, ap, "x_audio_only") {
				continue
			}
			if vTimeOffsetAsset(ap) {
				continue // see DESIGN: assets whose first segment does not start at media time 0 are probed by C02 only
			}
			a, err := vAsset(root, ap)
			if err != nil || !a.LoopExact {
				continue
			}
			segMS := a.LoopMS / int64(len(a.Ref.Segs))
			var names []string
			for n := range a.MPDs {
				names = append(names, n)
			}
			sort.Strings(names)
			if quick && len(names) > 2 {
				names = names[:2]
			}
			for _, mpdName := range names {
				k := 0
				for _, mode := range []string{"number", "tltime", "tlnr"} {
					// offsets of several segments, beyond one and two loops of the asset (a low-latency offset may exceed a segment
					// with SegmentTimeline): the edge still advances one segment at a time
					for _, ato := range []int64{0, segMS / 2, a.LoopMS * 3 / 2, a.LoopMS*5/2 + segMS/2} {
						if ato > segMS && mode == "number" {
							continue
						}
						for _, tsbd := range []int64{10, 60, 7} {
							for _, periods := range []int{0, 60} {
								for _, stopK := range []int{0, 1, 2} {
									for _, start := range []int64{0, 1_700_000_000} {
										if ato > segMS && (periods > 0 || stopK != 0 || tsbd != 10) {
											continue
										}
										if periods > 0 && !c05PeriodAligned(a, periods) {
											continue // such period durations must be rejected: decided by C06, not walked here
										}
										if periods > 0 && start != 0 {
											// periods tile wall-clock time: only with a start time on a period boundary do the boundaries fall
											// between segments (otherwise a segment straddles two periods and "the period containing its
											// start" may lie before the time-shift window)
											start = start / int64(3600/periods) * int64(3600/periods)
										}
										if tsbd == 10 && stopK == 0 && ato == 0 && start == 0 && periods == 0 {
											// parameters that add elements to the MPD: none of them may make the content depend on the request instant
											for _, extra := range []string{"utc_direct", "utc_direct-httpisoms", "utc_head-ntp-sntp-httpxsdate-httpiso", "scte35_1", "mup_3", "spd_4", "ltgt_2500", "patch_60"} {
												cfgs = append(cfgs, c05Cfg{root: root, asset: ap, mpd: mpdName, mode: mode, atoMS: ato, tsbd: tsbd, extra: extra})
											}
										}
										k++
										// quick: a covering third of the product; the multi-period configuration whose
										// time-shift window fits inside one period is always kept
										if quick && (k+len(mpdName))%3 != 0 && !(periods > 0 && tsbd == 10 && stopK == 0 && ato == 0) {
											continue
										}
										var stop int64
										switch stopK {
										case 1:
											stop = start + (segMS*7/2)/1000 + 1 // mid segment
										case 2:
											stop = start + a.LoopMS*2/1000 // on a loop boundary (whole seconds for the alphabet)
										}
										cfgs = append(cfgs, c05Cfg{root: root, asset: ap, mpd: mpdName, mode: mode, atoMS: ato, tsbd: tsbd, periods: periods, stop: stop, start: start})
									}
								}
							}
						}
					}
				}
			}
		}
	}
	rep.Extra["configs_total"] = len(cfgs)
	for ci, c := range cfgs {
		if !vh.Mine(ci) {
			continue
		}
		if rep.OutOfBudget() {
			break
		}
		c05RunCfg(rep, c, quick)
	}
}

func c05RunCfg(rep *vh.Report, c c05Cfg, quick bool) {
	srv, err := vServer(c.root)
	if err != nil {
		rep.Violate("C05.setup", "server", err.Error(), nil)
		return
	}
	if _, served := srv.assetMgr.assets[c.asset]; !served {
		return
	}
	a, _ := vAsset(c.root, c.asset)
	v := a.Ref
	N := int64(len(v.Segs))
	prefix := vCfgPrefix(c.parts()...)
	ast := c.start * 1000
	set := map[int64]bool{}
	add := func(t int64) {
		if t >= ast {
			set[t] = true
		}
	}
	loops := int64(2)
	if !quick {
		loops = 4
	}
	nMax := loops*N + 2
	if c.tsbd >= 60 {
		nMax += 60000 / (a.LoopMS / N)
	}
	for n := int64(0); n <= nMax; n++ {
		sMS := vref.TicksToMSCeil(v.LiveStart(n), v.TS)
		eMS := vref.TicksToMSCeil(v.LiveEnd(n), v.TS)
		for _, base := range []int64{sMS, eMS} {
			for _, o1 := range []int64{0, -c.atoMS} {
				for _, o2 := range []int64{0, c.tsbd * 1000} {
					T := ast + base + o1 + o2
					add(T - 1)
					add(T)
					add(T + 1)
				}
			}
		}
	}
	if c.periods > 0 {
		pd := int64(3600/c.periods) * 1000
		for k := int64(0); k <= 3; k++ {
			for _, o := range []int64{0, c.tsbd * 1000} {
				T := ((ast/pd)+k)*pd + o
				add(T - 1)
				add(T)
				add(T + 1)
			}
		}
	}
	if c.stop > 0 {
		for _, d := range []int64{-1000, -1, 0, 1, 1000, 5000, 100000} {
			add(c.stop*1000 + d)
		}
	}
	add(ast)
	add(ast + 1)
	var ts []int64
	for t := range set {
		ts = append(ts, t)
	}
	sort.Slice(ts, func(i, j int) bool { return ts[i] < ts[j] })
	var all []int64
	for i, t := range ts {
		all = append(all, t)
		if i+1 < len(ts) && ts[i+1]-t > 2 {
			all = append(all, t+(ts[i+1]-t)/2)
		}
	}
	viol := func(clause, sig, msg string, t int64) {
		rep.Violate(clause, sig+":"+c.mode, fmt.Sprintf("%s t=%d: %s", c, t, msg),
			map[string]any{"url": fmt.Sprintf("%s/%s/%s?nowMS=%d", prefix, c.asset, c.mpd, t)})
	}
	fracMS := false
	for _, sg := range v.Segs {
		if sg.End*1000%v.TS != 0 || sg.Start*1000%v.TS != 0 {
			fracMS = true
		}
	}
	var prev *c05State
	byPub := map[int64]*c05State{}
	lastChangeKind := ""
	var lastChange int64 = -1 // instant of the most recent content change (known exactly when the change happened between t-1 and t)
	lastChangeExact := false
	var firstBody []byte
	for _, t := range all {
		url := fmt.Sprintf("%s/%s/%s?nowMS=%d", prefix, c.asset, c.mpd, t)
		resp := vGet(srv, url)
		rep.AddExecs(1)
		rep.AddStates(1)
		if prev != nil {
			rep.AddTrans(1)
		}
		if resp.Code != 200 {
			if resp.vCrashed() {
				site, val := vPanicSite(srv.livesimHandlerFunc, "GET", url, nil)
				viol("C05.mpd", "panic:"+site, "handler crashed: "+val, t)
			} else if c.periods > 0 && strings.Contains(string(resp.Body), "not a multiple") {
				rep.Hit("C05.rejected-periods")
				return // rejected configuration (C06)
			} else {
				viol("C05.mpd", fmt.Sprintf("status-%d", resp.Code), fmt.Sprintf("MPD status %d %q", resp.Code, vTrim(resp.Body)), t)
			}
			prev = nil
			continue
		}
		m, err := vref.ParseMPD(resp.Body)
		if err != nil {
			viol("C05.mpd", "unparsable", err.Error(), t)
			continue
		}
		st := &c05State{t: t, body: resp.Body, first: map[string]uint64{}, last: map[string]uint64{}, nPeriods: len(m.Periods), typ: m.Type, pubStr: m.PublishTime}
		for _, p := range m.Periods {
			st.periodIDs += p.ID + ","
		}
		st.pub, err = vref.DateMS(m.PublishTime)
		if err != nil {
			viol("C05.c", "publishTime-unparsable", fmt.Sprintf("publishTime %q: %v", m.PublishTime, err), t)
			continue
		}
		segs, _ := m.TimelineSegs()
		for _, s := range segs {
			if _, ok := st.first[s.RepID]; !ok {
				st.first[s.RepID] = s.Time
			}
			st.last[s.RepID] = s.Time
		}
		afterStop := c.stop > 0 && t > c.stop*1000
		// (h) static after stop
		if afterStop {
			rep.Hit("C05.h")
			if m.Type != "static" {
				viol("C05.h", "not-static", fmt.Sprintf("type=%q after the stop time", m.Type), t)
			}
			if d, err := vref.DurMS(m.MediaPresentationDuration); err != nil || d != (c.stop-c.start)*1000 {
				viol("C05.h", "duration", fmt.Sprintf("mediaPresentationDuration=%q, want %d s", m.MediaPresentationDuration, c.stop-c.start), t)
			}
			if m.TimeShiftBufferDepth != "" || m.MinimumUpdatePeriod != "" || m.SuggestedPresentationDelay != "" {
				viol("C05.h", "dynamic-attributes", "timeShiftBufferDepth/minimumUpdatePeriod/suggestedPresentationDelay present in a static MPD", t)
			}
		} else if c.stop > 0 && m.Type != "dynamic" {
			viol("C05.h", "static-too-early", fmt.Sprintf("type=%q before the stop time", m.Type), t)
		}
		// (c) publishTime not later than the request instant
		rep.Hit("C05.c")
		if st.pub > t {
			viol("C05.c", "publishTime-in-future", fmt.Sprintf("publishTime %s (%d) is later than the request instant", m.PublishTime, st.pub), t)
		}
		if prev != nil {
			// (a) first / last listed never move backwards
			rep.Hit("C05.a")
			for id, f := range st.first {
				if pf, ok := prev.first[id]; ok && f < pf {
					viol("C05.a", "first-backwards", fmt.Sprintf("rep %s: first listed segment moved from %d back to %d", id, pf, f), t)
				}
				if pl, ok := prev.last[id]; ok && st.last[id] < pl {
					viol("C05.a", "last-backwards", fmt.Sprintf("rep %s: last listed segment moved from %d back to %d", id, pl, st.last[id]), t)
				}
			}
			// (d) publishTime non-decreasing
			rep.Hit("C05.d")
			if st.pub < prev.pub {
				viol("C05.d", "publishTime-backwards", fmt.Sprintf("publishTime went from %s to %s", prev.pubStr, st.pubStr), t)
			}
			// content change tracking (content = document without its publishTime attribute)
			if !bytes.Equal(c05PubRe.ReplaceAll(prev.body, nil), c05PubRe.ReplaceAll(st.body, nil)) {
				lastChange = t
				lastChangeExact = t-prev.t == 1
				lastChangeKind = c05ChangeKind(prev, st, v.ID)
			}
		}
		// (b) live edge: the last listed video segment is the newest ended one (timeline modes, before stop)
		if c.mode != "number" && !afterStop {
			rep.Hit("C05.b")
			nLast := v.LastEnded(t-ast, c.atoMS)
			if c.stop > 0 && t > c.stop*1000 {
				nLast = v.LastEnded(c.stop*1000-ast, c.atoMS)
			}
			got, ok := st.last[v.ID]
			if nLast >= 0 && (!ok || got != v.LiveStart(nLast)) {
				viol("C05.b", "live-edge", fmt.Sprintf("last listed video segment starts at %d (listed=%v), newest ended segment index %d starts at %d", got, ok, nLast, v.LiveStart(nLast)), t)
			}
		}
		// (e) publishTime = instant of the most recent change
		if lastChange >= 0 && lastChangeExact && !afterStop {
			rep.Hit("C05.e")
			// segment ends that are not whole milliseconds: the change becomes observable at ceil(exact),
			// publishTime may state floor(exact)
			if st.pub != lastChange && !(fracMS && st.pub == lastChange-1) {
				kind := "later"
				if st.pub < lastChange {
					kind = "earlier"
				}
				viol("C05.e", "publishTime-not-change-instant:"+kind+":"+lastChangeKind, fmt.Sprintf("content last changed at %d, publishTime is %d (%s)", lastChange, st.pub, st.pubStr), t)
			}
		}
		// (f) same publishTime => identical document
		rep.Hit("C05.f")
		if afterStop {
			// the static document after the stop time is covered by clause (h); it is not compared
			// with the dynamic documents that carried the same publishTime
		} else if o, ok := byPub[st.pub]; ok {
			if !bytes.Equal(o.body, st.body) {
				viol("C05.f", "same-publishTime-different-content:"+c05ChangeKind(o, st, v.ID), fmt.Sprintf("publishTime %s also at t=%d with a different document (%s)", st.pubStr, o.t, c05DiffHint(o.body, st.body)), t)
			}
		} else {
			byPub[st.pub] = st
		}
		// (g) plain $Number$ and one period: the MPD never changes
		if c.mode == "number" && c.periods == 0 && !afterStop {
			rep.Hit("C05.g")
			if firstBody == nil {
				firstBody = st.body
			} else if !bytes.Equal(firstBody, st.body) {
				viol("C05.g", "number-mpd-changed", "the $Number$ single-period MPD differs from the one at stream start ("+c05DiffHint(firstBody, st.body)+")", t)
			}
		}
		prev = st
	}
	rep.Sample(map[string]any{"config": c.String(), "instants": len(all), "distinct_publishTimes": len(byPub)})
	rep.Outcome(fmt.Sprintf("%s/%s/%s/%d", c.asset, c.mpd, c.mode, len(byPub)))
}

// c05DiffHint names the first differing line of two documents.
func c05DiffHint(a, b []byte) string {
	la, lb := strings.Split(string(a), "\n"), strings.Split(string(b), "\n")
	for i := 0; i < len(la) && i < len(lb); i++ {
		if la[i] != lb[i] {
			return fmt.Sprintf("line %d: %q vs %q", i+1, strings.TrimSpace(la[i]), strings.TrimSpace(lb[i]))
		}
	}
	return fmt.Sprintf("%d vs %d lines", len(la), len(lb))
}

// c05ChangeKind classifies how two documents differ (used in signatures so that a known
// finding covers one specific kind of change only).
func c05ChangeKind(a, b *c05State, vid string) string {
	switch {
	case a.typ != b.typ:
		return "type-changed"
	case a.periodIDs != b.periodIDs:
		return "periods-changed"
	case a.last[vid] != b.last[vid] && a.first[vid] != b.first[vid]:
		return "both-edges-moved"
	case a.last[vid] != b.last[vid]:
		return "last-added"
	case a.first[vid] != b.first[vid]:
		return "first-removed"
	}
	return "other"
}

// c05PeriodAligned: the period duration is a whole multiple of every reference video segment duration.
func c05PeriodAligned(a *vref.VAsset, periods int) bool {
	pd := uint64(3600/periods) * a.Ref.TS
	for _, sg := range a.Ref.Segs {
		if pd%sg.Dur() != 0 {
			return false
		}
	}
	return true
}
