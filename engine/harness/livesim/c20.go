package app

// C20 — the request limiter enforces its quota exactly, also under concurrency.
//
// Part A (schedules): 2-3 client threads + 1 reader (+ optional clock tick) through the
// real NewLimiterMiddleware / reqCountHandlerFunc under the vrt scheduler; every
// schedule up to the preemption bound; oracle = linearizability against a sequential
// quota model (porcupine), direct status/header clauses, happens-before race freedom.
// Part B (sequences): every Inc sequence up to depth k with time steps around the
// interval boundary against the same model.

import (
	"fmt"
	"net"
	"net/http"
	"net/http/httptest"
	"os"
	"path/filepath"
	"sort"
	"strconv"
	"strings"
	"testing"
	"time"

	"github.com/anishathalye/porcupine"

	"github.com/Dash-Industry-Forum/livesim2/internal/vshim/vh"
	"github.com/Dash-Industry-Forum/livesim2/internal/vshim/vrt"
)

type c20In struct {
	kind string // inc | count
	ip   string
	now  int64
}

type c20Out struct {
	nr, max int
	ok      bool
	end     int64
}

type c20State struct {
	reset    int64
	counters string // canonical "ip=n;..."
}

func c20Counters(s string) map[string]int {
	m := map[string]int{}
	for _, kv := range strings.Split(s, ";") {
		if kv == "" {
			continue
		}
		p := strings.SplitN(kv, "=", 2)
		n, _ := strconv.Atoi(p[1])
		m[p[0]] = n
	}
	return m
}

func c20Canon(m map[string]int) string {
	var ks []string
	for k := range m {
		ks = append(ks, k)
	}
	sort.Strings(ks)
	var b strings.Builder
	for _, k := range ks {
		fmt.Fprintf(&b, "%s=%d;", k, m[k])
	}
	return b.String()
}

// reference model: written from the property statement (per-interval counter per
// address, restart only after the interval has elapsed, white list never limited)
func c20Step(st c20State, in c20In, max int, interval int64, wl func(string) bool) (c20State, c20Out) {
	switch in.kind {
	case "inc":
		m := c20Counters(st.counters)
		if in.now-st.reset > interval {
			m = map[string]int{}
			st.reset = in.now
		}
		m[in.ip]++
		nr := m[in.ip]
		st.counters = c20Canon(m)
		if wl(in.ip) {
			return st, c20Out{nr: nr, max: -1, ok: true}
		}
		return st, c20Out{nr: nr, max: max, ok: nr <= max}
	case "count", "end":
		m := c20Counters(st.counters)
		return st, c20Out{nr: m[in.ip], max: max, end: st.reset + interval}
	}
	panic("bad op")
}

type c20Scenario struct {
	name     string
	blocks   string // white-listed blocks ("" = 10.0.0.0/8)
	max      int
	clients  [][]string // per thread: list of IP specs ("ip" or "xff:ip")
	reader   string     // ip to read, "" = none
	tickTo   int64      // >0: a clock thread moves virtual time to start+tickTo (ns)
	startOff int64      // virtual now at start relative to limiter start (ns)
	logFile  bool       // the limiter writes its interval log (dump at every roll-over)
}

const c20Interval = int64(10 * time.Second)
const c20T0 = int64(1_700_000_000) * int64(time.Second)

func c20Request(ipSpec string) *http.Request {
	r := httptest.NewRequest("GET", "/livesim2/x.mpd", nil)
	if strings.HasPrefix(ipSpec, "xff:") {
		r.Header.Set("X-Forwarded-For", ipSpec[4:])
		r.RemoteAddr = "9.9.9.9:1000"
	} else if strings.Contains(ipSpec, ":") {
		r.RemoteAddr = "[" + ipSpec + "]:1000"
	} else {
		r.RemoteAddr = ipSpec + ":1000"
	}
	return r
}

// c20IP is the address a request comes from, whatever way it is written (2001:db8::1 and 2001:DB8:0:0:0:0:0:1 are
// one address; an IPv4-mapped IPv6 address is the IPv4 address it carries).
func c20IP(ipSpec string) string {
	ip := strings.TrimPrefix(ipSpec, "xff:")
	if first, _, isList := strings.Cut(ip, ","); isList {
		ip = strings.TrimSpace(first) // "client, proxy1, proxy2": every proxy appends the address it got the request from
	}
	if p := net.ParseIP(ip); p != nil {
		return p.String()
	}
	if addr, zone, hasZone := strings.Cut(ip, "%"); hasZone {
		if p := net.ParseIP(addr); p != nil {
			return p.String() + "%" + zone
		}
	}
	return ip
}

func TestVerifC20(t *testing.T) {
	rep := vh.NewReport("C20")
	defer rep.Write()
	// white list 10.0.0.0/8; an IPv4-mapped IPv6 address is the IPv4 address it carries
	wlBlocks := "10.0.0.0/8"
	wl := func(ip string) bool { // membership by the definition of a CIDR block, block by block
		if addr, _, hasZone := strings.Cut(ip, "%"); hasZone {
			ip = addr // the zone says which link the address is on, not which address it is
		}
		p := net.ParseIP(ip)
		if p == nil {
			return false
		}
		for _, b := range strings.Split(wlBlocks, ",") {
			if _, n, err := net.ParseCIDR(b); err == nil && n.Contains(p) {
				return true
			}
		}
		return false
	}
	scenarios := []c20Scenario{
		{name: "3x1-same-ip", max: 2, clients: [][]string{{"1.2.3.4"}, {"1.2.3.4"}, {"1.2.3.4"}}, reader: "1.2.3.4"},
		{name: "2x2-same-ip", max: 3, clients: [][]string{{"1.2.3.4", "1.2.3.4"}, {"1.2.3.4", "1.2.3.4"}}, reader: "1.2.3.4"},
		{name: "mixed-ips", max: 1, clients: [][]string{{"1.2.3.4", "xff:1.2.3.4"}, {"2001:db8::1", "1.2.3.4"}, {"10.1.1.1", "10.1.1.1"}}, reader: "10.1.1.1"},
		{name: "boundary-tick", max: 1, clients: [][]string{{"1.2.3.4", "1.2.3.4"}, {"1.2.3.4"}}, reader: "1.2.3.4", tickTo: c20Interval + 1, startOff: c20Interval},
		{name: "after-boundary", max: 1, clients: [][]string{{"1.2.3.4"}, {"1.2.3.4"}, {"5.6.7.8"}}, reader: "5.6.7.8", startOff: c20Interval + 1},
		{name: "mapped-addresses", max: 1, clients: [][]string{{"xff:::ffff:10.2.3.4", "xff:::ffff:10.2.3.4", "xff:::ffff:10.2.3.4"}, {"xff:::ffff:1.2.3.4", "xff:::ffff:1.2.3.4"}, {"xff:10.2.3.4", "1.2.3.4"}}, reader: "xff:::ffff:1.2.3.4"},
		{name: "two-spellings", max: 1, clients: [][]string{{"xff:2001:db8::1", "xff:2001:DB8:0:0:0:0:0:1"}, {"2001:db8::1"}, {"xff:2001:0db8::0001"}}, reader: "xff:2001:db8:0::1"},
		// a client behind proxies: the header is a list with the client first
		{name: "forwarded-list", max: 1, clients: [][]string{{"xff:10.2.3.4, 172.16.0.1", "xff:10.2.3.4, 172.16.0.1"}, {"xff:1.2.3.4, 9.9.9.9", "xff:1.2.3.4"}, {"xff:1.2.3.4,8.8.8.8, 9.9.9.9"}}, reader: "xff:1.2.3.4, 7.7.7.7"},
		// blocks that overlap: narrow before wide with the same base address, wide before narrow, IPv6, a host route
		{name: "nested-blocks", blocks: "192.168.0.0/24,192.168.0.0/16,2001:db8::/64,2001:db8::/32,172.16.5.5/32", max: 1, clients: [][]string{{"192.168.7.7", "192.168.7.7"}, {"xff:2001:db8:1::5", "xff:2001:db8:1::5"}, {"172.16.5.5", "172.16.5.6", "172.16.5.6"}}, reader: "192.168.7.7"},
		{name: "nested-blocks-wide-first", blocks: "10.0.0.0/8,10.1.0.0/16,10.1.1.0/24", max: 1, clients: [][]string{{"10.1.1.1", "10.1.1.1"}, {"10.200.0.1"}, {"11.0.0.1", "11.0.0.1"}}, reader: "11.0.0.1"},
		// link-local IPv6 clients: the server's RemoteAddr carries the zone ("[fe80::1%eth0]:port")
		{name: "link-local-zone", max: 1, clients: [][]string{{"fe80::1%eth0", "fe80::1%eth0"}, {"fe80::1%eth0"}, {"fe80::2%eth0", "1.2.3.4"}}, reader: "fe80::1%eth0"},
		{name: "link-local-zone-whitelisted", blocks: "fe80::/10", max: 1, clients: [][]string{{"fe80::1%eth0", "fe80::1%eth0"}, {"xff:fe80::1%eth0", "xff:fe80::1%eth0"}, {"2001:db8::1", "2001:db8::1"}}, reader: "2001:db8::1"},
		{name: "after-boundary-logfile", max: 3, clients: [][]string{{"1.2.3.4", "1.2.3.4"}, {"1.2.3.4"}, {"5.6.7.8"}}, reader: "1.2.3.4", startOff: c20Interval + 1, logFile: true},
		{name: "boundary-tick-logfile", max: 2, clients: [][]string{{"1.2.3.4", "1.2.3.4"}, {"1.2.3.4"}}, reader: "1.2.3.4", tickTo: c20Interval + 1, startOff: c20Interval, logFile: true},
	}
	logDir, err := os.MkdirTemp(os.Getenv("VERIF_SCRATCH"), "c20log")
	if err != nil {
		t.Fatalf("scratch: %v", err)
	}
	defer os.RemoveAll(logDir)
	bound := 2
	if !vh.Quick() {
		bound = 3
	}
	shard, nshards := vh.Shard()
	rep.Bound = bound
	for si, sc := range scenarios {
		sc := sc
		wlBlocks = "10.0.0.0/8"
		if sc.blocks != "" {
			wlBlocks = sc.blocks
		}
		type opRec struct {
			in       c20In
			out      c20Out
			call, rt int64
			status   int
			hdr      string
			passed   bool
			tid      int
		}
		var ops []opRec
		body := func(s *vrt.Sched) {
			ops = ops[:0]
			logFile := ""
			if sc.logFile {
				logFile = filepath.Join(logDir, "limiter.json")
			}
			lim, err := NewIPRequestLimiter(sc.max, time.Duration(c20Interval), time.Unix(0, c20T0).UTC(), wlBlocks, logFile)
			if err != nil {
				s.Fail("setup", err.Error())
				return
			}
			srv := &Server{reqLimiter: lim}
			s.SetNow(c20T0 + sc.startOff)
			var clock int64
			tick := func() int64 { clock++; return clock }
			var hs []*vrt.Handle
			for ti, reqs := range sc.clients {
				ti, reqs := ti, reqs
				hs = append(hs, s.Spawn(fmt.Sprintf("client%d", ti), func() {
					for _, spec := range reqs {
						passed := false
						next := http.HandlerFunc(func(w http.ResponseWriter, r *http.Request) { passed = true; w.WriteHeader(200) })
						h := NewLimiterMiddleware("Livesim2-Requests", lim)(next)
						s.Point("request")
						rec := opRec{in: c20In{kind: "inc", ip: c20IP(spec), now: s.Now()}, call: tick(), tid: ti}
						w := httptest.NewRecorder()
						h.ServeHTTP(w, c20Request(spec))
						rec.rt = tick()
						rec.status, rec.hdr, rec.passed = w.Code, w.Header().Get("Livesim2-Requests"), passed
						var nr, mx int
						if _, err := fmt.Sscanf(rec.hdr, "%d (max %d)", &nr, &mx); err != nil {
							s.Fail("C20.hdr:unparsable", "header "+rec.hdr)
						}
						rec.out = c20Out{nr: nr, max: mx, ok: w.Code != http.StatusTooManyRequests}
						ops = append(ops, rec)
					}
				}))
			}
			if sc.reader != "" {
				hs = append(hs, s.Spawn("reader", func() {
					s.Point("request")
					rec := opRec{in: c20In{kind: "count", ip: c20IP(sc.reader), now: s.Now()}, call: tick(), tid: 100}
					w := httptest.NewRecorder()
					srv.reqCountHandlerFunc(w, c20Request(sc.reader))
					rec.rt = tick()
					var nr, mx int
					var rest string
					bodyStr := w.Body.String()
					if _, err := fmt.Sscanf(bodyStr, "%d (max %d) until", &nr, &mx); err != nil {
						s.Fail("C20.count:unparsable", bodyStr)
					}
					if k := strings.Index(bodyStr, "until "); k >= 0 {
						rest = bodyStr[k+6:]
					}
					end, _ := time.Parse(time.RFC822, rest)
					rec.out = c20Out{nr: nr, max: mx, end: end.UnixNano()}
					rec.status = w.Code
					ops = append(ops, rec)
				}))
			}
			if sc.tickTo > 0 {
				hs = append(hs, s.Spawn("clock", func() {
					s.Point("tick")
					s.SetNow(c20T0 + sc.tickTo)
				}))
			}
			s.Join(hs...)

			// ---- oracles for this execution
			model := porcupine.Model{
				Init: func() interface{} { return c20State{reset: c20T0} },
				Step: func(state, input, output interface{}) (bool, interface{}) {
					st, out := c20Step(state.(c20State), input.(c20In), sc.max, c20Interval, wl)
					got := output.(c20Out)
					in := input.(c20In)
					if in.kind == "count" {
						return out.nr == got.nr && out.max == got.max, st
					}
					if in.kind == "end" {
						// the page prints the end time with minute resolution
						return out.end/int64(time.Minute) == got.end/int64(time.Minute), st
					}
					return out == got, st
				},
				Equal: func(a, b interface{}) bool { return a.(c20State) == b.(c20State) },
			}
			var pops []porcupine.Operation
			for i, o := range ops {
				if o.in.kind == "count" {
					// the page is produced by two separate reads (Count, then EndTime); the statement
					// only asks each of them to be a consistent read, so they are two operations
					// sharing the handler's call/return window
					in2 := o.in
					in2.kind = "end"
					pops = append(pops, porcupine.Operation{ClientId: 1000 + i, Input: in2, Call: o.call, Output: o.out, Return: o.rt})
				}
				pops = append(pops, porcupine.Operation{ClientId: i, Input: o.in, Call: o.call, Output: o.out, Return: o.rt})
			}
			rep.Hit("C20.lin")
			if !porcupine.CheckOperations(model, pops) {
				s.Fail("C20.lin:not-linearizable:"+sc.name, fmt.Sprintf("history %+v", ops))
			}
			// direct clauses (only when everything is in one interval)
			if sc.tickTo == 0 {
				rep.Hit("C20.quota")
				per := map[string][]opRec{}
				for _, o := range ops {
					if o.in.kind == "inc" {
						per[o.in.ip] = append(per[o.in.ip], o)
					}
				}
				for ip, l := range per {
					var nrs []int
					passed := 0
					for _, o := range l {
						nrs = append(nrs, o.out.nr)
						if o.passed {
							passed++
						}
						if o.passed != (o.status != 429) {
							s.Fail("C20.quota:pass-status-mismatch", fmt.Sprintf("%+v", o))
						}
						if !wl(ip) && (o.out.nr <= sc.max) != o.passed {
							s.Fail("C20.quota:wrong-decision", fmt.Sprintf("ip %s nr %d max %d passed %v", ip, o.out.nr, sc.max, o.passed))
						}
						if wl(ip) && !o.passed {
							s.Fail("C20.quota:whitelisted-limited", fmt.Sprintf("%+v", o))
						}
					}
					sort.Ints(nrs)
					for i, n := range nrs {
						if n != i+1 {
							s.Fail("C20.quota:header-values-not-1..k", fmt.Sprintf("ip %s values %v", ip, nrs))
							break
						}
					}
					want := len(l)
					if !wl(ip) && want > sc.max {
						want = sc.max
					}
					if passed != want {
						s.Fail("C20.quota:passed-count", fmt.Sprintf("ip %s passed %d want %d", ip, passed, want))
					}
				}
			}
			var obs []string
			for _, o := range ops {
				obs = append(obs, fmt.Sprintf("%d:%s:%d:%d", o.tid, o.in.ip, o.out.nr, o.status))
			}
			s.Observe(strings.Join(obs, ","))
		}
		st := vrt.Explore(vrt.ExploreOpts{RunOpts: vrt.RunOpts{Race: true, Horizon: 5000}, Bound: bound, Shard: shard, NShards: nshards, MaxExec: 400000}, body)
		rep.AddExecs(int64(st.Executions))
		rep.AddStates(int64(st.Points))
		rep.AddTrans(int64(st.Points))
		rep.Hit("C20.race")
		for o, n := range st.Outcomes {
			rep.Outcomes[sc.name+"/"+o] += n
		}
		for _, c := range st.CapsHit {
			rep.Cap(sc.name + ":" + c)
		}
		if si == 0 && len(st.SampleSchedules) > 0 {
			rep.Sample(map[string]any{"scenario": sc.name, "schedule": st.SampleSchedules[len(st.SampleSchedules)-1], "executions": st.Executions})
		}
		rep.Extra["executions_"+sc.name] = st.Executions
		for _, f := range st.Failures {
			clause := "C20.lin"
			switch {
			case strings.HasPrefix(f.Sig, "race:"):
				clause = "C20.race"
			case strings.HasPrefix(f.Sig, "C20.quota"):
				clause = "C20.quota"
			case strings.HasPrefix(f.Sig, "panic:"), f.Sig == "deadlock":
				clause = "C20.crash"
			case strings.HasPrefix(f.Sig, "engine:"):
				t.Fatalf("engine error: %s %s", f.Sig, f.Msg)
			}
			// confirm: the recorded schedule must reproduce the failure 5 times
			okN := 0
			for k := 0; k < 5; k++ {
				x := vrt.Run(f.Choices, vrt.RunOpts{Race: true, Horizon: 5000}, body)
				for _, g := range x.Fails {
					if g.Sig == f.Sig {
						okN++
						break
					}
				}
			}
			if okN != 5 {
				t.Fatalf("engine error: failure %s reproduced %d/5 times", f.Sig, okN)
			}
			rep.Violate(clause, f.Sig, f.Msg, map[string]any{"scenario": sc.name, "schedule": f.Choices})
		}
	}

	wlBlocks = "10.0.0.0/8"
	// ---- Part B: sequences around the interval boundary (shard 0 only; it is cheap)
	depth := 5
	if !vh.Quick() {
		depth = 6
	}
	if shard == 0 {
		ips := []string{"1.2.3.4", "5.6.7.8", "10.0.0.1"}
		dts := []int64{0, c20Interval, c20Interval + 1, 3 * c20Interval}
		nAlt := len(ips) * len(dts)
		seq := make([]int, depth)
		var nSeq, nOps int64
		var walk func(d int)
		run := func(n int) {
			lim, _ := NewIPRequestLimiter(2, time.Duration(c20Interval), time.Unix(0, c20T0).UTC(), "10.0.0.0/8", "")
			st := c20State{reset: c20T0}
			now := c20T0
			for i := 0; i < n; i++ {
				ip, dt := ips[seq[i]%len(ips)], dts[seq[i]/len(ips)]
				now += dt
				nr, mx, ok := lim.Inc(time.Unix(0, now).UTC(), ip)
				var want c20Out
				st, want = c20Step(st, c20In{kind: "inc", ip: ip, now: now}, 2, c20Interval, wl)
				nOps++
				if (c20Out{nr: nr, max: mx, ok: ok}) != want {
					rep.Violate("C20.seq", fmt.Sprintf("seq-mismatch:dt=%d:wl=%v", dt, wl(ip)), fmt.Sprintf("step %d of %v: got (%d,%d,%v) want %+v", i, seq[:n], nr, mx, ok, want), map[string]any{"seq": append([]int{}, seq[:n]...)})
					return
				}
				if lim.EndTime().UnixNano() != st.reset+c20Interval {
					rep.Violate("C20.seq", "endtime-mismatch", fmt.Sprintf("step %d of %v", i, seq[:n]), nil)
					return
				}
			}
		}
		walk = func(d int) {
			if d == depth {
				nSeq++
				run(depth)
				return
			}
			for a := 0; a < nAlt; a++ {
				seq[d] = a
				walk(d + 1)
			}
		}
		walk(0)
		rep.Hit("C20.seq")
		rep.AddStates(nSeq)
		rep.AddTrans(nOps)
		rep.AddExecs(nSeq)
		rep.Extra["sequences"] = nSeq
		rep.Sample(map[string]any{"sequence_depth": depth, "alphabet": "Inc(a|b|wl) x dt{0,I,I+1ns,3I}", "sequences": nSeq})
	}
}
