package vref

import (
	"fmt"
	"os"
	"path/filepath"
	"sort"
	"strings"
)

// VoD asset model read directly from the files (own MPD reader + own box walker).

type VSeg struct {
	Nr      int64  // number in the file name ($Number$ assets), or index+1
	Time    uint64 // value in the file name for $Time$ assets
	Start   uint64 // tfdt of first fragment
	End     uint64 // Start + sum of sample durations
	Samples []Sample
	File    string
	Raw     []byte
	Subs    []uint32 // subsample sizes of the first fragment (stpp with images)
}

func (s VSeg) Dur() uint64 { return s.End - s.Start }

type VRep struct {
	LoopMismatch bool   // the track's own total duration differs from the reference (video) loop: no gap-free timeline exists for it
	LoopOverride uint64 // for such a track: the asset's loop duration in this track's timescale (0 if that is not a whole number of ticks)
	ID           string
	Kind         string // video audio text image
	Codecs       string
	InitURI      string
	MediaTmpl    string // with $Number$ / $Time$ left in
	TS           uint64
	Init         *Init
	InitRaw      []byte
	Segs         []VSeg
	FrameDur     uint32 // constant sample duration (0 if not constant)
	StartNr      int64
	Bandwidth    int
	Lang         string
}

func (r *VRep) IsTime() bool { return strings.Contains(r.MediaTmpl, "$Time$") }

// LoopTicks is the loop duration in the representation's timescale.
func (r *VRep) LoopTicks() uint64 {
	if len(r.Segs) == 0 {
		return 0
	}
	return r.Segs[len(r.Segs)-1].End - r.Segs[0].Start
}

// Loop is the duration after which the track repeats on the live timeline: the asset's loop
// duration (C01: "floor(n/N)*loopDuration + VoD start"). It equals LoopTicks except for a track
// whose own duration differs from the asset's.
func (r *VRep) Loop() uint64 {
	if r.LoopOverride != 0 {
		return r.LoopOverride
	}
	return r.LoopTicks()
}

type VAsset struct {
	Root      string
	Path      string
	MPDs      map[string]*MPD
	Reps      map[string]*VRep
	Ref       *VRep
	LoopMS    int64 // exact when LoopExact
	LoopExact bool
}

func kindOf(as *AdaptationSet, r *Rep) string {
	if as.ContentType != "" {
		return as.ContentType
	}
	mt := as.MimeType
	if mt == "" {
		mt = r.MimeType
	}
	switch {
	case strings.HasPrefix(mt, "video/"):
		return "video"
	case strings.HasPrefix(mt, "audio/"):
		return "audio"
	case mt == "application/mp4":
		return "text"
	case strings.HasPrefix(mt, "image/"):
		return "image"
	}
	c := as.Codecs
	if c == "" {
		c = r.Codecs
	}
	switch {
	case strings.HasPrefix(c, "avc"), strings.HasPrefix(c, "hev"), strings.HasPrefix(c, "hvc"):
		return "video"
	case strings.HasPrefix(c, "mp4a"), strings.HasPrefix(c, "ac-3"), strings.HasPrefix(c, "ec-3"):
		return "audio"
	case strings.HasPrefix(c, "stpp"), strings.HasPrefix(c, "wvtt"):
		return "text"
	}
	return ""
}

// LoadAsset reads every MPD of the asset directory and every segment file they reference.
func LoadAsset(root, assetPath string) (*VAsset, error) {
	a := &VAsset{Root: root, Path: assetPath, MPDs: map[string]*MPD{}, Reps: map[string]*VRep{}}
	dir := filepath.Join(root, assetPath)
	ents, err := os.ReadDir(dir)
	if err != nil {
		return nil, err
	}
	for _, e := range ents {
		if e.IsDir() || !strings.HasSuffix(e.Name(), ".mpd") {
			continue
		}
		raw, err := os.ReadFile(filepath.Join(dir, e.Name()))
		if err != nil {
			return nil, err
		}
		m, err := ParseMPD(raw)
		if err != nil {
			return nil, fmt.Errorf("%s: %w", e.Name(), err)
		}
		a.MPDs[e.Name()] = m
		if len(m.Periods) != 1 {
			return nil, fmt.Errorf("%s: %d periods", e.Name(), len(m.Periods))
		}
		for ai := range m.Periods[0].AS {
			as := &m.Periods[0].AS[ai]
			for ri := range as.Reps {
				r := &as.Reps[ri]
				if _, ok := a.Reps[r.ID]; ok {
					continue
				}
				vr, err := loadRep(dir, as, r)
				if err != nil {
					return nil, fmt.Errorf("%s rep %s: %w", e.Name(), r.ID, err)
				}
				a.Reps[r.ID] = vr
			}
		}
	}
	var ids []string
	for id := range a.Reps {
		ids = append(ids, id)
	}
	sort.Strings(ids)
	for _, k := range []string{"video", "audio"} {
		for _, id := range ids {
			if a.Ref == nil && a.Reps[id].Kind == k {
				a.Ref = a.Reps[id]
			}
		}
	}
	if a.Ref == nil {
		return nil, fmt.Errorf("no video or audio representation")
	}
	lt := a.Ref.LoopTicks() * 1000
	a.LoopMS = int64(lt / a.Ref.TS)
	a.LoopExact = lt%a.Ref.TS == 0
	for _, r := range a.Reps {
		if r.Kind == "audio" || r == a.Ref || len(r.Segs) == 0 {
			continue // audio is re-segmented to the video grid
		}
		// compare total durations exactly: r.loop/r.TS == ref.loop/ref.TS
		if r.LoopTicks()*a.Ref.TS != a.Ref.LoopTicks()*r.TS {
			r.LoopMismatch = true
			if x := a.Ref.LoopTicks() * r.TS; x%a.Ref.TS == 0 && x/a.Ref.TS >= r.LoopTicks() {
				r.LoopOverride = x / a.Ref.TS // a shorter track leaves a hole at the wrap; a longer one would overlap and stays unmodelled
			}
		}
	}
	return a, nil
}

func loadRep(dir string, as *AdaptationSet, r *Rep) (*VRep, error) {
	st := as.Template(r)
	if st == nil {
		return nil, fmt.Errorf("no SegmentTemplate")
	}
	vr := &VRep{ID: r.ID, Kind: kindOf(as, r), Codecs: as.Codecs, Bandwidth: r.Bandwidth, Lang: as.Lang}
	if r.Codecs != "" {
		vr.Codecs = r.Codecs
	}
	vr.InitURI = ExpandURL(st.Initialization, r.ID, r.Bandwidth, 0, 0)
	vr.MediaTmpl = strings.ReplaceAll(strings.ReplaceAll(st.Media, "$RepresentationID$", r.ID), "$Bandwidth$", fmt.Sprint(r.Bandwidth))
	vr.StartNr = 1
	if st.StartNumber != nil {
		vr.StartNr = int64(*st.StartNumber)
	}
	if vr.Kind == "image" {
		if st.Duration == nil {
			return nil, fmt.Errorf("image without duration")
		}
		vr.TS = st.TS()
		for nr := vr.StartNr; ; nr++ {
			f := filepath.Join(dir, ExpandURL(vr.MediaTmpl, r.ID, r.Bandwidth, nr, 0))
			raw, err := os.ReadFile(f)
			if err != nil {
				break
			}
			k := uint64(nr - vr.StartNr)
			vr.Segs = append(vr.Segs, VSeg{Nr: nr, Start: k * *st.Duration, End: (k + 1) * *st.Duration, File: f, Raw: raw})
			if st.EndNumber != nil && nr == int64(*st.EndNumber) {
				break
			}
		}
		return vr, nil
	}
	raw, err := os.ReadFile(filepath.Join(dir, vr.InitURI))
	if err != nil {
		return nil, err
	}
	vr.InitRaw = raw
	vr.Init, err = ParseInit(raw)
	if err != nil {
		return nil, err
	}
	vr.TS = uint64(vr.Init.Timescale)
	readSeg := func(nr int64, t uint64) (VSeg, error) {
		f := filepath.Join(dir, ExpandURL(vr.MediaTmpl, r.ID, r.Bandwidth, nr, t))
		raw, err := os.ReadFile(f)
		if err != nil {
			return VSeg{}, err
		}
		sg, err := ParseSegment(raw, vr.Init.Trex)
		if err != nil {
			return VSeg{}, fmt.Errorf("%s: %w", f, err)
		}
		return VSeg{Nr: nr, Time: t, Start: sg.Start(), End: sg.Frags[len(sg.Frags)-1].Tfdt + sg.Frags[len(sg.Frags)-1].Dur(), Samples: sg.Samples(), File: f, Raw: raw, Subs: sg.Frags[0].SubsSizes}, nil
	}
	if vr.IsTime() {
		if st.Timeline == nil {
			return nil, fmt.Errorf("$Time$ without SegmentTimeline")
		}
		var t uint64
		for _, s := range st.Timeline.S {
			if s.T != nil {
				t = *s.T
			}
			for j := 0; j <= s.R; j++ {
				sg, err := readSeg(0, t)
				if err != nil {
					return nil, err
				}
				vr.Segs = append(vr.Segs, sg)
				t += s.D
			}
		}
	} else {
		for nr := vr.StartNr; ; nr++ {
			sg, err := readSeg(nr, 0)
			if err != nil {
				if os.IsNotExist(err) {
					break
				}
				return nil, err
			}
			vr.Segs = append(vr.Segs, sg)
			if st.EndNumber != nil && nr == int64(*st.EndNumber) {
				break
			}
		}
	}
	if len(vr.Segs) == 0 {
		return nil, fmt.Errorf("no segments")
	}
	fd := int64(-1)
	for _, sg := range vr.Segs {
		for _, s := range sg.Samples {
			if fd == -1 {
				fd = int64(s.Dur)
			} else if fd != int64(s.Dur) {
				fd = 0
			}
		}
	}
	if fd > 0 {
		vr.FrameDur = uint32(fd)
	}
	return vr, nil
}

// ---- looped timeline helpers (reference model, exact integer arithmetic)

// SegIdx returns (wrap, index in loop) of segment index n.
func (r *VRep) SegIdx(n int64) (int64, int) {
	N := int64(len(r.Segs))
	return n / N, int(n % N)
}

// LiveStart / LiveEnd: media time of segment index n on the looped timeline.
func (r *VRep) LiveStart(n int64) uint64 {
	w, i := r.SegIdx(n)
	return uint64(w)*r.Loop() + r.Segs[i].Start
}

func (r *VRep) LiveEnd(n int64) uint64 {
	w, i := r.SegIdx(n)
	return uint64(w)*r.Loop() + r.Segs[i].End
}

// LastEnded returns the largest segment index n whose end (minus atoMS) has been reached at
// relMS milliseconds after stream start, or -1. Exact: end(n)*1000/ts - atoMS <= relMS.
func (r *VRep) LastEnded(relMS, atoMS int64) int64 {
	x := relMS + atoMS // end(n) in ms must be <= x
	if x < 0 {
		return -1
	}
	N := int64(len(r.Segs))
	loop := r.Loop()
	// ticks budget: end(n) <= x*ts/1000  (floor keeps exactness: end is an integer number of ticks)
	lim := FloorMulDiv(uint64(x), r.TS, 1000)
	w := int64(lim / loop)
	n := w*N - 1 // last segment of the previous wrap certainly ended (if w > 0)
	for k := int64(0); k < N; k++ {
		if r.LiveEnd(w*N+k) <= lim {
			n = w*N + k
		} else {
			break
		}
	}
	return n
}
