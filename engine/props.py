# per-property configuration for bin/vcheck
PROPS = {
    "C20": {
        "parts": [{"pkg": "livesim", "test": "TestVerifC20", "shards": {"quick": 8, "thorough": 16}}],
        "clauses": ["C20.lin", "C20.quota", "C20.race", "C20.seq"],
        "level": "model_checking",
        "rule": "every schedule (preemption bound 2 quick / 3 thorough) of 2-3 client threads + reader (+ clock tick) "
                "through the real limiter middleware; every Inc sequence to depth 5/6 over 3 addresses x 3 time steps",
        "assumptions": ["goroutines are serialised by the vrt scheduler; scheduling points at mutex operations and harness request boundaries",
                        "data races are decided by a vector-clock detector on rewritten struct-field accesses",
                        "porcupine v1.3.0 decides linearizability of each recorded history"],
    },
    "C18": {
        "parts": [{"pkg": "chunkparser", "test": "TestVerifC18", "shards": {"quick": 12, "thorough": 16}}],
        "clauses": ["C18.concat", "C18.place", "C18.init", "C18.err", "C18.term"],
        "level": "model_checking",
        "rule": "io.Reader answers are explorer choices: every fragmentation of 6-7 small synthetic box streams x initial buffer sizes, "
                "every truncation x every buffer size, every injected error position, realistic init/chunked streams with <=2/3 "
                "deviations from the full answer, impossible size fields in every box position",
        "assumptions": ["streams are built from the bundled chunkparser testdata and synthetic 8-10 byte boxes",
                        "termination is decided by a 20 s watchdog on operations that take microseconds"],
    },
}
