#!/usr/bin/env python3
"""regenerates MANIFEST.json from engine/props.py (one check per claimed property)"""
import json, os, sys
here = os.path.dirname(os.path.abspath(__file__))
sys.path.insert(0, here)
from props import PROPS
ALL = ["C%02d" % i for i in range(1, 21)]
checks = []
for pid in ALL:
    if pid not in PROPS or PROPS[pid].get("disabled"):
        continue
    p = PROPS[pid]
    checks.append({
        "property_id": pid,
        "quick_cmd": "bin/vcheck %s quick" % pid,
        "thorough_cmd": "bin/vcheck %s thorough" % pid,
        "evidence_file": "evidence/%s.json" % pid,
        "replay_cmd_template": "bin/vcheck replay {path}",
        "engine": p.get("engine", "vrt"),
        "level_claimed": {"category": p.get("level", "model_checking"), "text": p.get("level_text", p.get("rule", "")),
                          "design_ref": "DESIGN.md section 4, " + pid},
        "level_note": "; ".join(p.get("assumptions", [])) or "see DESIGN.md section 5",
        "technique": p.get("technique", "model checking: bounded-exhaustive exploration of the real code under the vrt controlled runtime"),
    })
na = [{"property_id": pid, "reason": (PROPS.get(pid, {}).get("disabled") or "check not built yet in this round; planned per DESIGN.md section 4")}
      for pid in ALL if pid not in PROPS or PROPS[pid].get("disabled")]
m = {
    "version": 1,
    "setup_cmd": "bin/vcheck build",
    "hooks": {
        "guard": "verif",
        "enable": "go test -c -tags verif -overlay <generated: vinstr-rewritten copies of /repo's working tree + virtual shim packages internal/vshim/* + in-package harness files> (nothing is written into /repo)",
        "baseline_off_cmd": "cd /repo && GOFLAGS=-mod=mod GOPROXY=off GOSUMDB=off GOTOOLCHAIN=local go test -json -vet=off -count=1 -timeout 25m ./...",
        "source_commits": [],
        "add_only": True,
    },
    "engines": [
        {"name": "vrt", "path": "engine/shim/vrt", "serves_properties": [c["property_id"] for c in checks],
         "kind_free_text": "controlled scheduler + deviation-bounded DFS explorer + vector-clock race detector + virtual time, bound to the real code through the vinstr source rewriter (engine/vinstr) and go build -overlay"},
    ],
    "checks": checks,
    "not_applicable": na,
    "notes": "All checks rebuild from /repo's working tree on every invocation (rewritten copies are regenerated). Exit 2 = infrastructure error. "
             "Known findings (status known: printed as KNOWN-FINDING, exit 0) and repaired defects (status fixed: suppress nothing) are in known_findings.json, "
             "matched by clause and cause-specific signature; the file is never written at run time. DESIGN.md section 9 is the as-built record; "
             "seeded/ holds 140 property-breaking changes with the check that catches each (seeded/RESULTS.txt from bin/vseedall).",
}
json.dump(m, open(os.path.join(os.path.dirname(here), "MANIFEST.json"), "w"), indent=1)
print("manifest: %d checks, %d not_applicable" % (len(checks), len(na)))
