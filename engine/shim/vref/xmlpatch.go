package vref

import (
	"bytes"
	"encoding/xml"
	"fmt"
	"sort"
	"strconv"
	"strings"
)

// Own minimal XML DOM and an RFC 5261 style patch applier (the subset of selectors used by DASH
// MPD patches): /A/B[@id='x']/C[3]/@attr, operations add (pos prepend|before|after|append),
// replace, remove, applied in document order on the evolving tree.

type XNode struct {
	Name     string // local name (prefix resolved away), e.g. "Period"
	Space    string
	Attrs    []XAttr
	Children []*XNode
	Text     string
}

type XAttr struct{ Space, Name, Value string }

func ParseXML(b []byte) (*XNode, error) {
	dec := xml.NewDecoder(bytes.NewReader(b))
	var stack []*XNode
	var root *XNode
	for {
		tok, err := dec.Token()
		if err != nil {
			if err.Error() == "EOF" {
				break
			}
			return nil, err
		}
		switch t := tok.(type) {
		case xml.StartElement:
			n := &XNode{Name: t.Name.Local, Space: t.Name.Space}
			for _, a := range t.Attr {
				if a.Name.Space == "xmlns" || (a.Name.Space == "" && a.Name.Local == "xmlns") {
					continue // namespace declarations are not content
				}
				n.Attrs = append(n.Attrs, XAttr{a.Name.Space, a.Name.Local, a.Value})
			}
			if len(stack) > 0 {
				p := stack[len(stack)-1]
				p.Children = append(p.Children, n)
			} else {
				root = n
			}
			stack = append(stack, n)
		case xml.EndElement:
			stack = stack[:len(stack)-1]
		case xml.CharData:
			if len(stack) > 0 {
				stack[len(stack)-1].Text += string(t)
			}
		}
	}
	if root == nil {
		return nil, fmt.Errorf("no root element")
	}
	return root, nil
}

// Canon renders the tree canonically (attributes sorted, insignificant whitespace dropped).
func (n *XNode) Canon() string {
	var b strings.Builder
	n.canon(&b, 0)
	return b.String()
}

func (n *XNode) canon(b *strings.Builder, depth int) {
	ind := strings.Repeat(" ", depth)
	attrs := append([]XAttr{}, n.Attrs...)
	sort.Slice(attrs, func(i, j int) bool {
		if attrs[i].Name != attrs[j].Name {
			return attrs[i].Name < attrs[j].Name
		}
		return attrs[i].Space < attrs[j].Space
	})
	fmt.Fprintf(b, "%s<%s", ind, n.Name)
	for _, a := range attrs {
		fmt.Fprintf(b, " %s=%q", a.Name, a.Value)
	}
	b.WriteString(">")
	if t := strings.TrimSpace(n.Text); t != "" {
		b.WriteString(t)
	}
	b.WriteString("\n")
	for _, c := range n.Children {
		c.canon(b, depth+1)
	}
}

func (n *XNode) Attr(name string) (string, bool) {
	for _, a := range n.Attrs {
		if a.Name == name {
			return a.Value, true
		}
	}
	return "", false
}

func (n *XNode) clone() *XNode {
	c := &XNode{Name: n.Name, Space: n.Space, Text: n.Text, Attrs: append([]XAttr{}, n.Attrs...)}
	for _, ch := range n.Children {
		c.Children = append(c.Children, ch.clone())
	}
	return c
}

type xsel struct {
	parent *XNode // nil for root
	idx    int    // index of the selected element in parent.Children
	node   *XNode
	attr   string // non-empty: attribute selected
}

// resolve evaluates a selector against the document (root element doc).
func resolve(doc *XNode, sel string) (xsel, error) {
	if !strings.HasPrefix(sel, "/") {
		return xsel{}, fmt.Errorf("selector %q is not absolute", sel)
	}
	steps := splitSteps(sel[1:])
	if len(steps) == 0 {
		return xsel{}, fmt.Errorf("empty selector")
	}
	var cur *XNode
	var parent *XNode
	idx := 0
	for si, st := range steps {
		if strings.HasPrefix(st, "@") {
			if si != len(steps)-1 || cur == nil {
				return xsel{}, fmt.Errorf("attribute step not last in %q", sel)
			}
			return xsel{parent: parent, idx: idx, node: cur, attr: st[1:]}, nil
		}
		name, pred := st, ""
		if k := strings.Index(st, "["); k >= 0 {
			if !strings.HasSuffix(st, "]") {
				return xsel{}, fmt.Errorf("bad step %q", st)
			}
			name, pred = st[:k], st[k+1:len(st)-1]
		}
		if k := strings.Index(name, ":"); k >= 0 {
			name = name[k+1:]
		}
		if si == 0 {
			if doc.Name != name {
				return xsel{}, fmt.Errorf("root is %q, selector starts with %q", doc.Name, name)
			}
			if pred != "" {
				if err := matchPred(doc, pred, 1); err != nil {
					return xsel{}, err
				}
			}
			cur, parent, idx = doc, nil, 0
			continue
		}
		var found *XNode
		fi := -1
		count := 0
		nMatch := 0
		for i, c := range cur.Children {
			if c.Name != name {
				continue
			}
			count++
			ok := true
			if pred != "" {
				ok = matchPred(c, pred, count) == nil
			}
			if ok {
				nMatch++
				if found == nil {
					found, fi = c, i
				}
			}
		}
		if found == nil {
			return xsel{}, fmt.Errorf("step %q of %q matches nothing", st, sel)
		}
		if nMatch > 1 {
			return xsel{}, fmt.Errorf("step %q of %q is ambiguous (%d matches)", st, sel, nMatch)
		}
		parent, cur, idx = cur, found, fi
	}
	return xsel{parent: parent, idx: idx, node: cur}, nil
}

func splitSteps(s string) []string {
	var out []string
	depth := 0
	inQ := false
	start := 0
	for i, c := range s {
		switch {
		case c == '\'':
			inQ = !inQ
		case c == '[' && !inQ:
			depth++
		case c == ']' && !inQ:
			depth--
		case c == '/' && depth == 0 && !inQ:
			out = append(out, s[start:i])
			start = i + 1
		}
	}
	out = append(out, s[start:])
	return out
}

func matchPred(n *XNode, pred string, pos int) error {
	if k, err := strconv.Atoi(pred); err == nil {
		if k == pos {
			return nil
		}
		return fmt.Errorf("position")
	}
	if strings.HasPrefix(pred, "@") {
		kv := strings.SplitN(pred[1:], "=", 2)
		if len(kv) == 2 {
			want := strings.Trim(kv[1], "'\"")
			if v, ok := n.Attr(kv[0]); ok && v == want {
				return nil
			}
			return fmt.Errorf("attribute predicate")
		}
	}
	return fmt.Errorf("unsupported predicate %q", pred)
}

// ApplyPatch applies the operations of a Patch document to a copy of doc.
func ApplyPatch(doc *XNode, patch *XNode) (*XNode, error) {
	out := doc.clone()
	for oi, op := range patch.Children {
		sel, _ := op.Attr("sel")
		pos, _ := op.Attr("pos")
		typ, _ := op.Attr("type")
		s, err := resolveForOp(out, op.Name, sel)
		if err != nil {
			return nil, fmt.Errorf("operation %d <%s sel=%q>: %w", oi, op.Name, sel, err)
		}
		switch op.Name {
		case "add":
			if s.attr != "" || strings.HasPrefix(typ, "@") {
				name := s.attr
				if name == "" {
					name = typ[1:]
				}
				if _, exists := s.node.Attr(name); exists {
					return nil, fmt.Errorf("operation %d: add of existing attribute %q", oi, name)
				}
				s.node.Attrs = append(s.node.Attrs, XAttr{Name: name, Value: strings.TrimSpace(op.Text)})
				continue
			}
			var content []*XNode
			for _, c := range op.Children {
				content = append(content, c.clone())
			}
			switch pos {
			case "prepend":
				s.node.Children = append(content, s.node.Children...)
			case "", "append":
				s.node.Children = append(s.node.Children, content...)
			case "before", "after":
				if s.parent == nil {
					return nil, fmt.Errorf("operation %d: sibling insertion at the root", oi)
				}
				at := s.idx
				if pos == "after" {
					at++
				}
				ch := append([]*XNode{}, s.parent.Children[:at]...)
				ch = append(ch, content...)
				ch = append(ch, s.parent.Children[at:]...)
				s.parent.Children = ch
			default:
				return nil, fmt.Errorf("operation %d: pos=%q", oi, pos)
			}
		case "replace":
			if s.attr != "" {
				found := false
				for i := range s.node.Attrs {
					if s.node.Attrs[i].Name == s.attr {
						s.node.Attrs[i].Value = strings.TrimSpace(op.Text)
						found = true
					}
				}
				if !found {
					return nil, fmt.Errorf("operation %d: replace of missing attribute %q", oi, s.attr)
				}
				continue
			}
			if len(op.Children) != 1 || s.parent == nil {
				return nil, fmt.Errorf("operation %d: element replace needs exactly one element (has %d)", oi, len(op.Children))
			}
			s.parent.Children[s.idx] = op.Children[0].clone()
		case "remove":
			if s.attr != "" {
				found := false
				for i := range s.node.Attrs {
					if s.node.Attrs[i].Name == s.attr {
						s.node.Attrs = append(s.node.Attrs[:i:i], s.node.Attrs[i+1:]...)
						found = true
						break
					}
				}
				if !found {
					return nil, fmt.Errorf("operation %d: remove of missing attribute %q", oi, s.attr)
				}
				continue
			}
			if s.parent == nil {
				return nil, fmt.Errorf("operation %d: remove of the root", oi)
			}
			s.parent.Children = append(s.parent.Children[:s.idx:s.idx], s.parent.Children[s.idx+1:]...)
		default:
			return nil, fmt.Errorf("operation %d: unknown operation %q", oi, op.Name)
		}
	}
	return out, nil
}

// resolveForOp: an "add" whose selector ends in /@name addresses an attribute that does not
// exist yet; resolve the element.
func resolveForOp(doc *XNode, op, sel string) (xsel, error) {
	if op == "add" {
		steps := splitSteps(strings.TrimPrefix(sel, "/"))
		if last := steps[len(steps)-1]; strings.HasPrefix(last, "@") {
			s, err := resolve(doc, "/"+strings.Join(steps[:len(steps)-1], "/"))
			if err != nil {
				return s, err
			}
			s.attr = last[1:]
			return s, nil
		}
	}
	return resolve(doc, sel)
}

// XML renders the tree as a document (used to feed generated trees to the code under test).
func (n *XNode) XML() []byte {
	var b bytes.Buffer
	b.WriteString(`<?xml version="1.0" encoding="UTF-8"?>` + "\n")
	n.xml(&b)
	return b.Bytes()
}

func (n *XNode) xml(b *bytes.Buffer) {
	b.WriteString("<" + n.Name)
	if n.Name == "MPD" {
		b.WriteString(` xmlns="urn:mpeg:dash:schema:mpd:2011"`)
	}
	for _, a := range n.Attrs {
		b.WriteString(" " + a.Name + `="`)
		_ = xml.EscapeText(b, []byte(a.Value))
		b.WriteString(`"`)
	}
	b.WriteString(">")
	if t := strings.TrimSpace(n.Text); t != "" {
		_ = xml.EscapeText(b, []byte(t))
	}
	for _, c := range n.Children {
		c.xml(b)
	}
	b.WriteString("</" + n.Name + ">")
}

// Clone is an exported deep copy.
func (n *XNode) Clone() *XNode { return n.clone() }

// Walk visits every node with its parent (nil for the root) and child index.
func (n *XNode) Walk(f func(node, parent *XNode, idx int)) {
	var rec func(x, p *XNode, i int)
	rec = func(x, p *XNode, i int) {
		f(x, p, i)
		for k, c := range x.Children {
			rec(c, x, k)
		}
	}
	rec(n, nil, 0)
}
