package patch

// C11 (diff level) — MPDDiff(old, new) applied to old reproduces new, for every tree reachable by
// <= k edits from a family of id-carrying MPD-like trees (bounded exhaustive tree enumeration).

import (
	"fmt"
	"strconv"
	"strings"
	"testing"

	"github.com/Dash-Industry-Forum/livesim2/internal/vshim/vh"
	"github.com/Dash-Industry-Forum/livesim2/internal/vshim/vref"
)

const c11Base = `<MPD id="m1" type="dynamic" publishTime="2024-01-01T00:00:10Z" availabilityStartTime="1970-01-01T00:00:00Z">
<BaseURL>a/</BaseURL>
<Location>http://x/loc.mpd</Location>
<PatchLocation ttl="60">/patch/x.mpp?publishTime=2024-01-01T00%3A00%3A10Z</PatchLocation>
<Period id="P0" start="PT0S">
 <AdaptationSet id="1" contentType="video" lang="en">
  <Role schemeIdUri="urn:role" value="main"></Role>
  <SupplementalProperty schemeIdUri="urn:a" value="1"></SupplementalProperty>
  <SegmentTemplate media="$RepresentationID$/$Time$.m4s" timescale="90000">
   <SegmentTimeline><S t="0" d="10" r="2"></S><S d="20"></S><S d="10" r="1"></S></SegmentTimeline>
  </SegmentTemplate>
  <Representation id="V1" bandwidth="1"><Label>one</Label></Representation>
  <Representation id="V2" bandwidth="2"></Representation>
 </AdaptationSet>
 <AdaptationSet id="2" contentType="audio">
  <SegmentTemplate media="$RepresentationID$/$Number$.m4s" timescale="48000" startNumber="5">
   <SegmentTimeline><S t="0" d="96" r="3"></S></SegmentTimeline>
  </SegmentTemplate>
  <Representation id="A1" bandwidth="3"></Representation>
 </AdaptationSet>
</Period>
<UTCTiming schemeIdUri="urn:utc" value="x"></UTCTiming>
</MPD>`

// second base: two periods, duplicate-scheme descriptors (legal in DASH: several Role elements)
const c11BaseDup = `<MPD id="m2" type="dynamic" publishTime="2024-01-01T00:00:10Z">
<PatchLocation ttl="60">/patch/y.mpp</PatchLocation>
<Period id="P0" start="PT0S">
 <AdaptationSet id="1" contentType="text">
  <Role schemeIdUri="urn:role" value="subtitle"></Role>
  <Role schemeIdUri="urn:role" value="caption"></Role>
  <SegmentTemplate media="$Time$.m4s" timescale="1000"><SegmentTimeline><S t="0" d="2000"></S></SegmentTimeline></SegmentTemplate>
  <Representation id="T1" bandwidth="1"></Representation>
 </AdaptationSet>
</Period>
<Period id="P1" start="PT60S">
 <AdaptationSet id="1" contentType="text">
  <SegmentTemplate media="$Time$.m4s" timescale="1000"><SegmentTimeline><S t="60000" d="2000" r="1"></S></SegmentTimeline></SegmentTemplate>
  <Representation id="T1" bandwidth="1"></Representation>
 </AdaptationSet>
</Period>
</MPD>`

// third base: several positional siblings (same tag, neither id nor schemeIdUri)
const c11BaseSiblings = `<MPD id="m3" type="dynamic" publishTime="2024-01-01T00:00:10Z">
<BaseURL>a/</BaseURL>
<BaseURL>b/</BaseURL>
<BaseURL>c/</BaseURL>
<PatchLocation ttl="60">/patch/z.mpp</PatchLocation>
<Period id="P0" start="PT0S">
 <BaseURL>p1/</BaseURL>
 <BaseURL>p2/</BaseURL>
 <AdaptationSet id="1" contentType="video">
  <SegmentTemplate media="$Time$.m4s" timescale="1000"><SegmentTimeline><S t="0" d="2000"></S><S d="1000"></S><S d="2000"></S></SegmentTimeline></SegmentTemplate>
  <Representation id="V1" bandwidth="1"><Label>one</Label><Label>two</Label></Representation>
 </AdaptationSet>
</Period>
</MPD>`

type c11Edit struct {
	desc  string
	apply func(root *vref.XNode) bool
}

// path identifies a node by child indices from the root
func c11Node(root *vref.XNode, path []int) (*vref.XNode, *vref.XNode, int) {
	var parent *vref.XNode
	cur := root
	idx := 0
	for _, i := range path {
		if i >= len(cur.Children) {
			return nil, nil, 0
		}
		parent, cur, idx = cur, cur.Children[i], i
	}
	return cur, parent, idx
}

func c11Paths(root *vref.XNode) [][]int {
	var out [][]int
	var rec func(n *vref.XNode, p []int)
	rec = func(n *vref.XNode, p []int) {
		out = append(out, append([]int{}, p...))
		for i, c := range n.Children {
			rec(c, append(p, i))
		}
	}
	rec(root, nil)
	return out
}

func c11NewElems(parent string, uniq int) []*vref.XNode {
	id := fmt.Sprintf("n%d", uniq)
	switch parent {
	case "MPD":
		return []*vref.XNode{
			{Name: "Period", Attrs: []vref.XAttr{{Name: "id", Value: id}, {Name: "start", Value: "PT120S"}}},
			{Name: "BaseURL", Text: "new/"},
			{Name: "UTCTiming", Attrs: []vref.XAttr{{Name: "schemeIdUri", Value: "urn:utc2"}, {Name: "value", Value: "y"}}},
		}
	case "Period":
		return []*vref.XNode{{Name: "AdaptationSet", Attrs: []vref.XAttr{{Name: "id", Value: "9" + fmt.Sprint(uniq)}, {Name: "contentType", Value: "video"}}}}
	case "AdaptationSet":
		return []*vref.XNode{
			{Name: "Representation", Attrs: []vref.XAttr{{Name: "id", Value: id}, {Name: "bandwidth", Value: "7"}}},
			{Name: "SupplementalProperty", Attrs: []vref.XAttr{{Name: "schemeIdUri", Value: "urn:new" + fmt.Sprint(uniq)}, {Name: "value", Value: "v"}}},
			{Name: "Label", Text: "lbl"},
		}
	case "SegmentTimeline":
		return []*vref.XNode{
			{Name: "S", Attrs: []vref.XAttr{{Name: "d", Value: "30"}}},
			{Name: "S", Attrs: []vref.XAttr{{Name: "d", Value: "10"}, {Name: "r", Value: "4"}}},
		}
	case "Representation":
		return []*vref.XNode{{Name: "Label", Text: "l2"}}
	}
	return nil
}

func c11Edits(root *vref.XNode) []c11Edit {
	var es []c11Edit
	uniq := 0
	for _, p := range c11Paths(root) {
		p := p
		n, parent, _ := c11Node(root, p)
		name := n.Name
		if parent != nil && name != "PatchLocation" { // the old document must advertise a PatchLocation (precondition of the diff)
			es = append(es, c11Edit{fmt.Sprintf("delete %s at %v", name, p), func(r *vref.XNode) bool {
				x, par, i := c11Node(r, p)
				if x == nil || par == nil || x.Name != name {
					return false
				}
				par.Children = append(par.Children[:i:i], par.Children[i+1:]...)
				return true
			}})
		}
		for pos := 0; pos <= len(n.Children); pos++ {
			pos := pos
			for _, ne := range c11NewElems(name, uniq) {
				uniq++
				ne := ne
				es = append(es, c11Edit{fmt.Sprintf("insert %s into %s at %v pos %d", ne.Name, name, p, pos), func(r *vref.XNode) bool {
					x, _, _ := c11Node(r, p)
					if x == nil || x.Name != name || pos > len(x.Children) {
						return false
					}
					ch := append([]*vref.XNode{}, x.Children[:pos]...)
					ch = append(ch, ne.Clone())
					x.Children = append(ch, x.Children[pos:]...)
					return true
				}})
			}
		}
		for ai, at := range n.Attrs {
			ai, at := ai, at
			if at.Name == "id" || at.Name == "publishTime" || at.Name == "schemeIdUri" || at.Name == "ttl" {
				continue // identity-carrying attributes are the precondition of the statement
			}
			es = append(es, c11Edit{fmt.Sprintf("change @%s of %s at %v", at.Name, name, p), func(r *vref.XNode) bool {
				x, _, _ := c11Node(r, p)
				if x == nil || x.Name != name || ai >= len(x.Attrs) || x.Attrs[ai].Name != at.Name {
					return false
				}
				x.Attrs[ai].Value += "7"
				return true
			}})
			es = append(es, c11Edit{fmt.Sprintf("remove @%s of %s at %v", at.Name, name, p), func(r *vref.XNode) bool {
				x, _, _ := c11Node(r, p)
				if x == nil || x.Name != name || ai >= len(x.Attrs) || x.Attrs[ai].Name != at.Name {
					return false
				}
				x.Attrs = append(x.Attrs[:ai:ai], x.Attrs[ai+1:]...)
				return true
			}})
		}
		if name != "SegmentTimeline" { // SegmentTimeline carries no attributes in an MPD
			es = append(es, c11Edit{fmt.Sprintf("add @extra to %s at %v", name, p), func(r *vref.XNode) bool {
				x, _, _ := c11Node(r, p)
				if x == nil || x.Name != name {
					return false
				}
				if _, has := x.Attr("extra"); has {
					return false
				}
				x.Attrs = append(x.Attrs, vref.XAttr{Name: "extra", Value: "e"})
				return true
			}})
		}
		if len(n.Children) == 0 && strings.TrimSpace(n.Text) != "" {
			es = append(es, c11Edit{fmt.Sprintf("change text of %s at %v", name, p), func(r *vref.XNode) bool {
				x, _, _ := c11Node(r, p)
				if x == nil || x.Name != name || len(x.Children) != 0 {
					return false
				}
				x.Text = strings.TrimSpace(x.Text) + "-changed"
				return true
			}})
		}
	}
	return es
}

func TestVerifC11D(t *testing.T) {
	rep := vh.NewReport("C11")
	defer rep.Write()
	quick := vh.Quick()
	// ttl is an xs:double: every lexical form of one value gives the same patch (the MPD writer may use any of them)
	if sh, _ := vh.Shard(); sh == 0 {
		newer := strings.Replace(strings.Replace(c11Base, `publishTime="2024-01-01T00:00:10Z"`, `publishTime="2024-01-01T00:00:20Z"`, 1), `minBufferTime="PT2S"`, `minBufferTime="PT4S"`, 1)
		var ref string
		for _, ttl := range []string{"60", "60.0", "6e1", "6E+01", "1e+06", "1000000", "0.5", "1.5"} {
			older := strings.Replace(c11Base, `ttl="60"`, `ttl="`+ttl+`"`, 1)
			rep.Hit("C11.diff")
			rep.AddExecs(1)
			doc, _, err := MPDDiff([]byte(older), []byte(strings.Replace(newer, `ttl="60"`, `ttl="`+ttl+`"`, 1)))
			if err != nil {
				rep.Violate("C11.diff", "diff-error:ttl-lexical-form", fmt.Sprintf("ttl=%q: MPDDiff failed: %v", ttl, err), map[string]any{"ttl": ttl})
				continue
			}
			pb, _ := doc.WriteToBytes()
			if f, _ := strconv.ParseFloat(ttl, 64); f != 60 {
				continue
			}
			if ref == "" {
				ref = string(pb)
			} else if string(pb) != ref {
				rep.Violate("C11.diff", "patch-depends-on-ttl-form", fmt.Sprintf("ttl=%q gives another patch than ttl=\"60\"", ttl), map[string]any{"ttl": ttl})
			}
		}
	}
	// long child lists: many Periods / many S entries, sliding windows that need tens of edit operations in one list
	if sh, _ := vh.Shard(); sh == 0 {
		mk := func(first, n int, kind string) string {
			var b strings.Builder
			b.WriteString(`<MPD id="m1" type="dynamic" publishTime="2024-01-01T00:00:10Z" availabilityStartTime="1970-01-01T00:00:00Z">` + "\n")
			b.WriteString(`<PatchLocation ttl="60">/patch/x.mpp</PatchLocation>` + "\n")
			if kind == "periods" {
				for i := first; i < first+n; i++ {
					fmt.Fprintf(&b, `<Period id="P%d" start="PT%dS"><AdaptationSet id="1" contentType="video"><SegmentTemplate timescale="1" media="$Number$.m4s" startNumber="%d" duration="2"/><Representation id="v" bandwidth="1"/></AdaptationSet></Period>`+"\n", i, 2*i, i)
				}
			} else {
				b.WriteString(`<Period id="P0" start="PT0S"><AdaptationSet id="1" contentType="video"><SegmentTemplate timescale="1" media="$Time$.m4s"><SegmentTimeline>`)
				for i := first; i < first+n; i++ {
					fmt.Fprintf(&b, `<S t="%d" d="%d"/>`, 10*i, 9+i%2)
				}
				b.WriteString(`</SegmentTimeline></SegmentTemplate><Representation id="v" bandwidth="1"/></AdaptationSet></Period>` + "\n")
			}
			b.WriteString(`</MPD>`)
			return b.String()
		}
		for _, kind := range []string{"periods", "timeline"} {
			for _, n := range []int{8, 20, 40} {
				for _, slide := range []int{1, 3, n / 4, n / 2, n - 6, n - 1, n} {
					for _, grow := range []int{0, 5} {
						if slide < 0 {
							continue
						}
						oldT, err1 := vref.ParseXML([]byte(mk(0, n, kind)))
						newT, err2 := vref.ParseXML([]byte(strings.Replace(mk(slide, n+grow, kind), "00:00:10Z", "00:00:20Z", 1)))
						if err1 != nil || err2 != nil {
							t.Fatalf("long lists: %v %v", err1, err2)
						}
						desc := fmt.Sprintf("%s: %d entries, window slides by %d and grows by %d", kind, n, slide, grow)
						rep.Hit("C11.diff")
						rep.AddExecs(1)
						rep.AddStates(1)
						in := map[string]any{"case": desc}
						doc, _, err := MPDDiff(oldT.XML(), newT.XML())
						if err != nil {
							rep.Violate("C11.diff", "diff-error:long-list:"+kind, fmt.Sprintf("%s: MPDDiff failed: %v", desc, err), in)
							continue
						}
						pb, _ := doc.WriteToBytes()
						pd, err := vref.ParseXML(pb)
						if err != nil {
							rep.Violate("C11.diff", "patch-unparsable:long-list:"+kind, err.Error(), in)
							continue
						}
						res, err := vref.ApplyPatch(oldT, pd)
						if err != nil {
							rep.Violate("C11.diff", "patch-not-applicable:long-list:"+kind, fmt.Sprintf("%s: %v", desc, err), in)
							continue
						}
						if res.Canon() != newT.Canon() {
							rep.Violate("C11.diff", "patched-differs:long-list:"+kind, fmt.Sprintf("%s: apply(patch, old) != new", desc), in)
						}
					}
				}
			}
		}
	}
	for bi, baseStr := range []string{c11Base, c11BaseDup, c11BaseSiblings} {
		base, err := vref.ParseXML([]byte(baseStr))
		if err != nil {
			t.Fatalf("base %d: %v", bi, err)
		}
		tag := []string{"plain", "dup-scheme", "siblings"}[bi]
		edits := c11Edits(base)
		rep.Extra[fmt.Sprintf("single_edits_%s", tag)] = len(edits)
		check := func(oldT, newT *vref.XNode, desc string) {
			// the new document is published later
			for i := range newT.Attrs {
				if newT.Attrs[i].Name == "publishTime" {
					newT.Attrs[i].Value = "2024-01-01T00:00:20Z"
				}
			}
			rep.AddStates(1)
			rep.AddTrans(1)
			rep.AddExecs(1)
			rep.Hit("C11.diff")
			in := map[string]any{"edits": desc, "base": tag}
			doc, _, err := MPDDiff(oldT.XML(), newT.XML())
			if err != nil {
				rep.Violate("C11.diff", "diff-error:"+tag+":"+c11Class(desc), fmt.Sprintf("%s: MPDDiff failed: %v", desc, err), in)
				return
			}
			pb, err := doc.WriteToBytes()
			if err != nil {
				rep.Violate("C11.diff", "patch-serialise:"+tag, err.Error(), in)
				return
			}
			pd, err := vref.ParseXML(pb)
			if err != nil {
				rep.Violate("C11.diff", "patch-unparsable:"+tag, err.Error(), in)
				return
			}
			res, err := vref.ApplyPatch(oldT, pd)
			if err != nil {
				sig := "patch-not-applicable:" + tag + ":" + c11Class(desc)
				if tag == "dup-scheme" && strings.Contains(err.Error(), "ambiguous") {
					sig = "patch-not-applicable:dup-scheme:ambiguous-selector"
				}
				rep.Violate("C11.diff", sig, fmt.Sprintf("%s: %v\npatch: %s", desc, err, string(pb)), in)
				return
			}
			if res.Canon() != newT.Canon() {
				rep.Violate("C11.diff", "patched-differs:"+tag+":"+c11Class(desc), fmt.Sprintf("%s: apply(diff(old,new), old) != new\npatch: %s", desc, string(pb)), in)
			}
			rep.Outcome(c11Class(desc))
		}
		k := 0
		for i, e1 := range edits {
			t1 := base.Clone()
			if !e1.apply(t1) {
				continue
			}
			k++
			if vh.Mine(k) {
				check(base, t1.Clone(), e1.desc)
				// and the reverse direction (new -> old)
				check(t1, base.Clone(), "reverse of: "+e1.desc)
			}
			if quick && bi == 1 {
				continue
			}
			step := 1
			if quick {
				step = 9
			}
			for j := i + 1; j < len(edits); j += step {
				k++
				if !vh.Mine(k) {
					continue
				}
				if rep.OutOfBudget() {
					return
				}
				t2 := t1.Clone()
				if !edits[j].apply(t2) {
					continue
				}
				check(base, t2, e1.desc+" + "+edits[j].desc)
			}
		}
		rep.Sample(map[string]any{"base": tag, "single_edits": len(edits)})
	}
}

// c11Class names the kinds of edit in a description (for signatures).
func c11Class(desc string) string {
	var ks []string
	for _, part := range strings.Split(strings.TrimPrefix(desc, "reverse of: "), " + ") {
		w := strings.Fields(part)
		if len(w) >= 2 {
			ks = append(ks, w[0]+"-"+strings.TrimPrefix(w[1], "@"))
		}
	}
	pre := ""
	if strings.HasPrefix(desc, "reverse of: ") {
		pre = "rev:"
	}
	return pre + strings.Join(ks, "+")
}
