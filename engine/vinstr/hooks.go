package main

import (
	"go/ast"
	"go/parser"
	"go/token"
	"go/types"
	"strconv"
	"strings"

	"golang.org/x/tools/go/ast/astutil"
)

func parseExpr(s string) (ast.Expr, error) { return parser.ParseExpr(s) }

// hookPass wraps reads and writes of addressable struct fields declared in the
// module's own packages:   x.f  =>  *vrt.R(&x.f, "T.f")   /   *vrt.W(&x.f, "T.f")
// and routes `range m` over maps through vrt.MapIter.
func (r *rewriter) hookPass() bool {
	changed := false
	type ctxT struct{ write bool }
	writes := map[ast.Expr]bool{} // selector expressions in write position
	mapWrites := map[ast.Expr]bool{}
	skip := map[ast.Expr]bool{}
	mapRanges := map[*ast.RangeStmt]bool{}
	identWrites := map[*ast.Ident]bool{}     // package-level variables in write position
	appendArgs := map[*ast.CallExpr]string{} // append(x.f, ...) / append(global, ...): label of the slice

	markLHS := func(e ast.Expr) {
		e = unparen(e)
		switch x := e.(type) {
		case *ast.Ident:
			identWrites[x] = true
		case *ast.SelectorExpr:
			writes[x] = true
		case *ast.IndexExpr:
			if id, ok := unparen(x.X).(*ast.Ident); ok {
				if t := r.typeOf(id); t != nil {
					if _, isMap := t.Underlying().(*types.Map); isMap {
						identWrites[id] = true
					}
				}
			}
			if s, ok := unparen(x.X).(*ast.SelectorExpr); ok {
				if t := r.typeOf(s); t != nil {
					if _, isMap := t.Underlying().(*types.Map); isMap {
						mapWrites[s] = true
					}
				}
			}
		}
	}
	ast.Inspect(r.file, func(n ast.Node) bool {
		switch x := n.(type) {
		case *ast.AssignStmt:
			if x.Tok != token.DEFINE {
				for _, l := range x.Lhs {
					markLHS(l)
				}
			}
		case *ast.IncDecStmt:
			markLHS(x.X)
		case *ast.CallExpr:
			if id, ok := x.Fun.(*ast.Ident); ok && id.Name == "append" && len(x.Args) >= 1 && *hooks {
				if _, isB := r.info.Uses[id].(*types.Builtin); isB {
					switch a0 := unparen(x.Args[0]).(type) {
					case *ast.SelectorExpr:
						if sel, ok := r.info.Selections[a0]; ok && sel.Kind() == types.FieldVal {
							appendArgs[x] = "append:" + types.ExprString(a0)
						}
					case *ast.Ident:
						if v, ok := r.info.Uses[a0].(*types.Var); ok && !v.IsField() && v.Pkg() != nil && v.Parent() == v.Pkg().Scope() {
							appendArgs[x] = "append:" + v.Pkg().Name() + "." + v.Name()
						}
					}
				}
			}
			if id, ok := x.Fun.(*ast.Ident); ok && id.Name == "delete" && len(x.Args) == 2 {
				if _, isB := r.info.Uses[id].(*types.Builtin); isB {
					if s, ok := unparen(x.Args[0]).(*ast.SelectorExpr); ok {
						mapWrites[s] = true
					}
					if id, ok := unparen(x.Args[0]).(*ast.Ident); ok {
						identWrites[id] = true
					}
				}
			}
		case *ast.SelectorExpr:
			// intermediate struct values are not accesses of their own
			if inner, ok := unparen(x.X).(*ast.SelectorExpr); ok {
				if os, isSel := r.info.Selections[x]; !isSel || os.Kind() != types.FieldVal {
					return true
				}
				if t := r.typeOf(inner); t != nil {
					if _, isStruct := t.Underlying().(*types.Struct); isStruct {
						skip[inner] = true
					}
				}
			}
		case *ast.RangeStmt:
			if t := r.typeOf(x.X); t != nil {
				if m, ok := t.Underlying().(*types.Map); ok {
					if b, ok := m.Key().Underlying().(*types.Basic); ok && b.Info()&(types.IsString|types.IsInteger) != 0 {
						mapRanges[x] = true
					}
				}
			}
			if x.Tok == token.ASSIGN {
				if x.Key != nil {
					markLHS(x.Key)
				}
				if x.Value != nil {
					markLHS(x.Value)
				}
			}
		}
		return true
	})

	modPrefix := "github.com/Dash-Industry-Forum/livesim2"
	post := func(c *astutil.Cursor) bool {
		switch n := c.Node().(type) {
		case *ast.CallExpr:
			if label, ok := appendArgs[n]; ok {
				n.Args[0] = r.call("SA", n.Args[0], &ast.BasicLit{Kind: token.STRING, Value: strconv.Quote(label)})
				r.st.AppendHooks++
				changed = true
			}
		case *ast.RangeStmt:
			if !*mapIter {
				return true
			}
			if !mapRanges[n] {
				return true
			}
			n.X = r.call("MapIter", n.X)
			r.st.MapRanges++
			changed = true
		case *ast.Ident:
			if !*hooks || !*hookGlobals {
				return true
			}
			v, ok := r.info.Uses[n].(*types.Var)
			if !ok || v.IsField() || v.Pkg() == nil || v.Parent() != v.Pkg().Scope() || !strings.HasPrefix(v.Pkg().Path(), modPrefix) {
				return true // only package-level variables of the module
			}
			if tv, ok := r.info.Types[n]; !ok || !tv.Addressable() {
				return true
			}
			switch p := c.Parent().(type) {
			case *ast.UnaryExpr:
				if p.Op == token.AND {
					return true
				}
			case *ast.SelectorExpr:
				if p.Sel == n {
					return true // pkg.Var written with a qualifier: the qualified form is left alone
				}
				if p.X == n {
					if ps, ok := r.info.Selections[p]; ok && ps.Kind() != types.FieldVal {
						// method call on the variable: pointer-receiver methods (mutex, pool, sync.Map) synchronise by themselves
						if f, ok := ps.Obj().(*types.Func); ok {
							if sig, ok := f.Type().(*types.Signature); ok && sig.Recv() != nil {
								if _, ptrRecv := sig.Recv().Type().(*types.Pointer); ptrRecv {
									if _, isPtr := v.Type().Underlying().(*types.Pointer); !isPtr {
										return true
									}
								}
							}
						}
					} else if ok {
						return true // x.field: the field access is hooked, not the struct variable as a whole
					}
				}
			case *ast.KeyValueExpr:
				if p.Key == n {
					return true
				}
			case *ast.ValueSpec:
				return true
			}
			fn := "R"
			if identWrites[n] {
				fn = "W"
			}
			c.Replace(&ast.StarExpr{X: r.call(fn, &ast.UnaryExpr{Op: token.AND, X: ast.NewIdent(n.Name)},
				&ast.BasicLit{Kind: token.STRING, Value: strconv.Quote(v.Pkg().Name() + "." + n.Name)})})
			r.st.FieldHooks++
			changed = true
		case *ast.SelectorExpr:
			if !*hooks {
				return true
			}
			sel, ok := r.info.Selections[n]
			if !ok || sel.Kind() != types.FieldVal {
				return true
			}
			obj := sel.Obj()
			if obj.Pkg() == nil {
				return true
			}
			if pp := obj.Pkg().Path(); !strings.HasPrefix(pp, modPrefix) {
				// fields of third-party types (mp4ff boxes, dash-mpd elements, ...) accessed by the
				// module's own code are hooked as well: shared parsed structures live in them.
				// Standard-library types are per-request objects here and are left alone.
				first := pp
				if k := strings.Index(pp, "/"); k >= 0 {
					first = pp[:k]
				}
				if !*hookExt || !strings.Contains(first, ".") || strings.Contains(pp, "/vshim/") {
					return true
				}
			}
			tv, ok := r.info.Types[n]
			if !ok || !tv.Addressable() {
				r.st.FieldSkipped++
				return true
			}
			if skip[n] {
				return true
			}
			// do not touch the operand of & (keeps &x.f an address-of-field expression),
			// nor a method-call receiver (x.mu.Lock())
			switch p := c.Parent().(type) {
			case *ast.UnaryExpr:
				if p.Op == token.AND {
					return true
				}
			case *ast.SelectorExpr:
				if p.X == n {
					if ps, ok := r.info.Selections[p]; ok && ps.Kind() != types.FieldVal {
						// method on a field: a pointer-receiver method on a struct-valued field
						// (mutex, atomic, wait group) synchronises by itself and is not an access;
						// a value-receiver method reads the field.
						if f, ok := ps.Obj().(*types.Func); ok {
							if sig, ok := f.Type().(*types.Signature); ok && sig.Recv() != nil {
								if _, ptrRecv := sig.Recv().Type().(*types.Pointer); ptrRecv {
									if _, fieldIsPtr := tv.Type.Underlying().(*types.Pointer); !fieldIsPtr {
										return true
									}
								}
							}
						}
					}
				}
			}
			recv := sel.Recv()
			if p, ok := recv.(*types.Pointer); ok {
				recv = p.Elem()
			}
			tn := "?"
			if named, ok := recv.(*types.Named); ok {
				tn = named.Obj().Name()
			}
			name := tn + "." + obj.Name()
			fn := "R"
			if writes[n] || mapWrites[n] {
				fn = "W"
			}
			c.Replace(&ast.StarExpr{X: r.call(fn, &ast.UnaryExpr{Op: token.AND, X: n},
				&ast.BasicLit{Kind: token.STRING, Value: strconv.Quote(name)})})
			r.st.FieldHooks++
			changed = true
		}
		return true
	}
	astutil.Apply(r.file, nil, post)
	return changed
}

func unparen(e ast.Expr) ast.Expr {
	for {
		p, ok := e.(*ast.ParenExpr)
		if !ok {
			return e
		}
		e = p.X
	}
}
