// Package vtime shadows "time" for rewritten livesim2 sources. Types are aliases
// of the real ones, so rewritten and original files interoperate; Now, Sleep,
// Since, Until, NewTimer, After and AfterFunc use the vrt virtual clock when a
// controlled execution is active.
package vtime

import (
	"time"
	"unsafe"

	"github.com/Dash-Industry-Forum/livesim2/internal/vshim/vrt"
)

type (
	Duration   = time.Duration
	Time       = time.Time
	Location   = time.Location
	Month      = time.Month
	Weekday    = time.Weekday
	ParseError = time.ParseError
	Ticker     = time.Ticker
)

const (
	Nanosecond  = time.Nanosecond
	Microsecond = time.Microsecond
	Millisecond = time.Millisecond
	Second      = time.Second
	Minute      = time.Minute
	Hour        = time.Hour

	Layout      = time.Layout
	ANSIC       = time.ANSIC
	UnixDate    = time.UnixDate
	RubyDate    = time.RubyDate
	RFC822      = time.RFC822
	RFC822Z     = time.RFC822Z
	RFC850      = time.RFC850
	RFC1123     = time.RFC1123
	RFC1123Z    = time.RFC1123Z
	RFC3339     = time.RFC3339
	RFC3339Nano = time.RFC3339Nano
	Kitchen     = time.Kitchen
	Stamp       = time.Stamp
	StampMilli  = time.StampMilli
	StampMicro  = time.StampMicro
	StampNano   = time.StampNano
	DateTime    = time.DateTime
	DateOnly    = time.DateOnly
	TimeOnly    = time.TimeOnly

	January   = time.January
	February  = time.February
	March     = time.March
	April     = time.April
	May       = time.May
	June      = time.June
	July      = time.July
	August    = time.August
	September = time.September
	October   = time.October
	November  = time.November
	December  = time.December

	Sunday    = time.Sunday
	Monday    = time.Monday
	Tuesday   = time.Tuesday
	Wednesday = time.Wednesday
	Thursday  = time.Thursday
	Friday    = time.Friday
	Saturday  = time.Saturday
)

var (
	UTC   = time.UTC
	Local = time.Local

	Date                   = time.Date
	Unix                   = time.Unix
	UnixMilli              = time.UnixMilli
	UnixMicro              = time.UnixMicro
	Parse                  = time.Parse
	ParseInLocation        = time.ParseInLocation
	ParseDuration          = time.ParseDuration
	LoadLocation           = time.LoadLocation
	FixedZone              = time.FixedZone
	NewTicker              = time.NewTicker
	Tick                   = time.Tick
	LoadLocationFromTZData = time.LoadLocationFromTZData
)

func Now() Time {
	if s := vrt.Cur(); s != nil {
		return time.Unix(0, s.Now()).UTC()
	}
	return time.Now()
}

func Since(t Time) Duration { return Now().Sub(t) }
func Until(t Time) Duration { return t.Sub(Now()) }

func Sleep(d Duration) {
	if s := vrt.Cur(); s != nil {
		s.Sleep(int64(d))
		return
	}
	time.Sleep(d)
}

// Timer mirrors time.Timer (field C, methods Stop and Reset).
type Timer struct {
	C    <-chan Time
	real *time.Timer
	vt   *vrt.Timer
	ch   chan Time
}

func NewTimer(d Duration) *Timer {
	s := vrt.Cur()
	if s == nil {
		rt := time.NewTimer(d)
		return &Timer{C: rt.C, real: rt}
	}
	ch := make(chan Time, 1)
	var ro <-chan Time = ch
	p := *(*uintptr)(unsafe.Pointer(&ro))
	t := &Timer{C: ch, ch: ch}
	t.vt = s.NewTimer(int64(d), ro, p, nil)
	return t
}

func (t *Timer) Stop() bool {
	if t.real != nil {
		return t.real.Stop()
	}
	s := vrt.Cur()
	if s == nil {
		return false
	}
	s.Point("Timer.Stop")
	return s.StopTimer(t.vt)
}

func (t *Timer) Reset(d Duration) bool {
	if t.real != nil {
		return t.real.Reset(d)
	}
	s := vrt.Cur()
	if s == nil {
		return false
	}
	s.Point("Timer.Reset")
	return s.ResetTimer(t.vt, int64(d))
}

func After(d Duration) <-chan Time { return NewTimer(d).C }

func AfterFunc(d Duration, f func()) *Timer {
	s := vrt.Cur()
	if s == nil {
		rt := time.AfterFunc(d, f)
		return &Timer{real: rt}
	}
	t := &Timer{}
	t.vt = s.NewTimer(int64(d), nil, 0, f)
	return t
}
