package app

// C09 — low-latency chunked delivery is the same media, never delivered early.
// E1 (virtual clock) + E3: segments x ato fractions x request instants (every chunk boundary +-1 ms)
// x {no DRM, cenc, cbcs} x client-stall choices (an environment answer per Write, <= 1 deviation).
// The ResponseWriter records the virtual instant of every Write/Flush.

import (
	"bytes"
	"fmt"
	"net/http"
	"net/http/httptest"
	"sort"
	"strings"
	"testing"

	"github.com/Dash-Industry-Forum/livesim2/internal/vshim/vh"
	"github.com/Dash-Industry-Forum/livesim2/internal/vshim/vref"
	"github.com/Dash-Industry-Forum/livesim2/internal/vshim/vrt"
	"github.com/Eyevinn/mp4ff/bits"
	"github.com/Eyevinn/mp4ff/mp4"
)

type c09Write struct {
	atMS int64
	n    int
}

// c09Writer records writes with their virtual time; a stall (client not reading) after a Write is
// an environment choice.
type c09Writer struct {
	hdr     http.Header
	code    int
	buf     bytes.Buffer
	writes  []c09Write
	flushes []int64
	stallMS int64
	s       *vrt.Sched
}

func (w *c09Writer) Header() http.Header { return w.hdr }
func (w *c09Writer) WriteHeader(c int)   { w.code = c }
func (w *c09Writer) Write(b []byte) (int, error) {
	if w.code == 0 {
		w.code = 200
	}
	w.writes = append(w.writes, c09Write{w.s.Now() / 1_000_000, len(b)})
	w.buf.Write(b)
	return len(b), nil
}
func (w *c09Writer) Flush() {
	w.flushes = append(w.flushes, w.s.Now()/1_000_000)
	// default: the client reads at once; deviation: it stalls, and the server is blocked in Flush
	if w.stallMS > 0 && vrt.Choose(2, "client-stall") == 1 {
		w.s.Sleep(w.stallMS * 1_000_000)
	}
}

type c09Chunk struct {
	writtenMS  int64
	start, end uint64
	hasStyp    bool
	samples    []vref.Sample
	seq        uint32
}

func TestVerifC09(t *testing.T) {
	rep := vh.NewReport("C09")
	defer rep.Write()
	quick := vh.Quick()
	type sel struct{ root, path string }
	// testpic_alt_seg_dur_stl has VoD segments of several fragments (chunk boundaries that do not coincide with them)
	sels := []sel{{vBundledRoot, "testpic_2s"}, {vBundledRoot, "testpic_8s"}, {vBundledRoot, "testpic_alt_seg_dur_stl"}}
	if g := vGenRoot(); g != "" {
		sels = append(sels, sel{g, "g_3x1500ms"}, sel{g, "g_1001"})
	}
	if x := vGenExtraRoot(); x != "" {
		sels = append(sels, sel{x, "x_vfr_2000_4000"}) // chunk boundaries must follow the real sample durations
		sels = append(sels, sel{x, "x_ts_10mhz"})      // a 10 MHz timescale: products of media time and 1000 or 90000
	}
	if !quick {
		sels = append(sels, sel{vBundledRoot, "testpic_6s"})
	}
	if sh, _ := vh.Shard(); sh == 0 {
		c09OtherKinds(rep)
	}
	job := 0
	for _, s := range sels {
		a, err := vAsset(s.root, s.path)
		if err != nil || !a.LoopExact {
			continue
		}
		srv, err := vServer(s.root)
		if err != nil {
			t.Fatalf("server: %v", err)
		}
		if _, ok := srv.assetMgr.assets[s.path]; !ok {
			continue
		}
		v := a.Ref
		segMS := a.LoopMS / int64(len(v.Segs))
		frameMS := int64(uint64(v.Segs[0].Samples[0].Dur) * 1000 / v.TS)
		atos := []int64{segMS - frameMS, segMS * 3 / 4, segMS / 2, segMS / 4, segMS / 8}
		var ids []string
		for id, r := range a.Reps {
			if r.Kind == "video" || (r.Kind == "audio" && r.FrameDur > 0) {
				ids = append(ids, id)
			}
		}
		sort.Strings(ids)
		N := int64(len(v.Segs))
		for _, id := range ids {
			for _, ato := range atos {
				for _, d := range []string{"", "eccp_cenc", "eccp_cbcs"} {
					if d != "" && !strings.HasPrefix(v.Codecs, "avc") {
						continue
					}
					for _, start := range []int64{0, 1_700_000_000} {
						for _, n := range []int64{0, 1, N - 1, N, 7*N + 1} {
							job++
							if !vh.Mine(job) {
								continue
							}
							if quick && job%5 != 0 {
								continue
							}
							if rep.OutOfBudget() {
								rep.Cap("budget")
								return
							}
							c09Run(rep, srv, a, s.path, a.Reps[id], ato, d, start, n, quick)
						}
					}
				}
			}
		}
	}
}

func c09Run(rep *vh.Report, srv *Server, a *vref.VAsset, asset string, r *vref.VRep, atoMS int64, d string, start, n int64, quick bool) {
	v := a.Ref
	parts := []string{"chunkdur_0.5", fmt.Sprintf("ato_%d.%03d", atoMS/1000, atoMS%1000)}
	if start > 0 {
		parts = append(parts, fmt.Sprintf("start_%d", start))
	}
	wholeParts := append([]string{}, parts[1:]...)
	if d != "" {
		parts = append(parts, d)
		wholeParts = append(wholeParts, d)
	}
	name := vref.ExpandURL(strings.ReplaceAll(r.MediaTmpl, "$Time$", "$Number$"), r.ID, r.Bandwidth, n, 0)
	var segS, segE uint64 // in r's timescale
	if r.Kind == "audio" {
		segS = vref.AudioBoundary(v.LiveStart(n), v.TS, r.TS, r.FrameDur)
		segE = vref.AudioBoundary(v.LiveEnd(n), v.TS, r.TS, r.FrameDur)
	} else {
		segS, segE = r.LiveStart(n), r.LiveEnd(n)
	}
	ast := start * 1000
	// advertised availability: end of the reference (video) segment minus ato
	tAdv := ast + vref.TicksToMSCeil(v.LiveEnd(n), v.TS) - atoMS
	endMS := ast + vref.TicksToMSCeil(segE, r.TS)
	tag := fmt.Sprintf("%s:%s", r.Kind, vIf(d == "", "clear", d))
	viol := func(clause, sig, msg, url string, choices []int) {
		rep.Violate(clause, sig+":"+tag, fmt.Sprintf("%s %s ato=%dms start=%d n=%d: %s", asset, name, atoMS, start, n, msg), map[string]any{"url": url, "stall_choices": choices})
	}
	// reference: the whole segment (same DRM), fetched after the segment has ended
	wu := fmt.Sprintf("%s/%s/%s?nowMS=%d", vCfgPrefix(wholeParts...), asset, name, endMS+10)
	wr := vGet(srv, wu)
	rep.AddExecs(1)
	if wr.Code != 200 {
		viol("C09.a", fmt.Sprintf("whole-status-%d", wr.Code), vTrim(wr.Body), wu, nil)
		return
	}
	var key []byte
	var di mp4.DecryptInfo
	trex := r.Init.Trex
	if d != "" {
		ir := vGet(srv, fmt.Sprintf("%s/%s/%s?nowMS=%d", vCfgPrefix(d), asset, r.InitURI, endMS))
		f, err := mp4.DecodeFile(bytes.NewReader(ir.Body))
		if ir.Code != 200 || err != nil || f.Init == nil {
			viol("C09.a", "drm-init", fmt.Sprintf("status %d err %v", ir.Code, err), wu, nil)
			return
		}
		if di, err = mp4.DecryptInit(f.Init); err != nil {
			viol("C09.a", "drm-decrypt-init", err.Error(), wu, nil)
			return
		}
		srvAsset := srv.assetMgr.assets[asset]
		k := srvAsset.Reps[r.ID].encData.key
		key = k[:]
	}
	decode := func(b []byte, url string) (*vref.Seg, bool) {
		if d != "" {
			f, err := mp4.DecodeFile(bytes.NewReader(b))
			if err != nil || len(f.Segments) == 0 {
				viol("C09.a", "undecodable", fmt.Sprint(err), url, nil)
				return nil, false
			}
			var out []byte
			for _, sgm := range f.Segments {
				if err := mp4.DecryptSegment(sgm, di, key); err != nil {
					viol("C09.a", "decrypt-failed", err.Error(), url, nil)
					return nil, false
				}
				sw := bits.NewFixedSliceWriter(int(sgm.Size()))
				_ = sgm.EncodeSW(sw)
				out = append(out, sw.Bytes()...)
			}
			b = out
		}
		sg, err := vref.ParseSegment(b, trex)
		if err != nil {
			viol("C09.a", "unparsable", err.Error(), url, nil)
			return nil, false
		}
		return sg, true
	}
	whole, ok := decode(wr.Body, wu)
	if !ok {
		return
	}
	wS := whole.Samples()
	// request instants: before availability, at it, around every chunk boundary, after the end
	chunkTicks := uint64((a.LoopMS/int64(len(v.Segs)) - atoMS)) * r.TS / 1000
	inst := map[int64]bool{tAdv - 1: true, tAdv: true, tAdv + 1: true, endMS + 5: true}
	if chunkTicks > 0 {
		for c := segS + chunkTicks; c < segE; c += chunkTicks {
			ms := ast + vref.TicksToMSCeil(c, r.TS)
			if ms > tAdv {
				inst[ms-1], inst[ms], inst[ms+1] = true, true, true
			}
		}
	}
	var ts []int64
	for t := range inst {
		ts = append(ts, t)
	}
	sort.Slice(ts, func(i, j int) bool { return ts[i] < ts[j] })
	if quick && len(ts) > 8 {
		ts = append(ts[:5], ts[len(ts)-3:]...)
	}
	maxDur := uint64(0)
	for _, smp := range wS {
		if uint64(smp.Dur) > maxDur {
			maxDur = uint64(smp.Dur)
		}
	}
	sampleMS := int64(maxDur*1000/r.TS) + 1 // a chunk ends on a sample boundary: up to the longest sample after its nominal end
	if r.Kind == "audio" {
		sampleMS *= 2 // the audio segment itself starts up to one frame after the video segment (C03)
	}
	for _, t := range ts {
		if rep.OutOfBudget() {
			rep.Cap("budget")
			return
		}
		url := fmt.Sprintf("%s/%s/%s?nowMS=%d", vCfgPrefix(parts...), asset, name, t)
		body := func(s *vrt.Sched, out *c09Writer) {
			out.s = s
			req := httptest.NewRequest("GET", url, nil)
			srv.Router.ServeHTTP(out, req)
		}
		var last *c09Writer
		run := func(s *vrt.Sched) {
			w := &c09Writer{hdr: http.Header{}, stallMS: 300}
			last = w
			body(s, w)
			// ---- oracles for this execution
			if t < tAdv {
				rep.Hit("C09.g")
				if w.code != 425 {
					s.Fail("C09.g:early-not-refused", fmt.Sprintf("request %d ms before the advertised availability time answered %d", tAdv-t, w.code))
				}
				return
			}
			if w.code != 200 {
				s.Fail(fmt.Sprintf("C09.a:status-%d", w.code), fmt.Sprintf("t=%d (advertised availability %d): status %d %q", t, tAdv, w.code, vTrim(w.buf.Bytes())))
				return
			}
			// split the body into chunks along the writes: a chunk = [styp] moof mdat
			top, err := vref.Boxes(w.buf.Bytes())
			if err != nil {
				s.Fail("C09.a:body-boxes", err.Error())
				return
			}
			// instant at which each byte offset was written
			var offs []int
			var when []int64
			o := 0
			for _, x := range w.writes {
				o += x.n
				offs = append(offs, o)
				when = append(when, x.atMS)
			}
			writtenAt := func(endOff int) int64 {
				for i, e := range offs {
					if endOff <= e {
						return when[i]
					}
				}
				return -1
			}
			sgAll, ok := decode(w.buf.Bytes(), url)
			if !ok {
				s.Fail("C09.a:undecodable", "chunked body does not decode")
				return
			}
			// (b) styp only in front
			rep.Hit("C09.b")
			for i, b := range top {
				if b.Type == "styp" && i != 0 {
					s.Fail("C09.b:styp-not-first", fmt.Sprintf("styp at top-level box %d", i))
				}
			}
			if whole.HasStyp && (len(top) == 0 || top[0].Type != "styp") {
				s.Fail("C09.b:styp-missing", "first chunk does not carry the segment type box")
			}
			// (a) same samples as the whole segment
			rep.Hit("C09.a")
			cS := sgAll.Samples()
			if len(cS) != len(wS) || sgAll.Start() != whole.Start() {
				s.Fail("C09.a:samples-differ", fmt.Sprintf("chunked: %d samples from %d; whole: %d samples from %d", len(cS), sgAll.Start(), len(wS), whole.Start()))
				return
			}
			for k := range cS {
				if cS[k].Hash != wS[k].Hash || cS[k].Dur != wS[k].Dur || cS[k].Flags != wS[k].Flags || cS[k].Size != wS[k].Size || cS[k].CTO != wS[k].CTO {
					s.Fail("C09.a:sample-differs", fmt.Sprintf("sample %d differs from the whole-segment response", k))
					return
				}
			}
			// (c) chunks ordered and contiguous; (d) span; (e) not before their end; (f) first chunk at once
			rep.Hit("C09.c")
			tcur := sgAll.Start()
			for ci, f := range sgAll.Frags {
				if f.Tfdt != tcur {
					s.Fail("C09.c:not-contiguous", fmt.Sprintf("chunk %d starts at %d, previous ended at %d", ci, f.Tfdt, tcur))
				}
				tcur = f.Tfdt + f.Dur()
				if int64(f.Seq) != n {
					s.Fail("C09.c:chunk-seqnr", fmt.Sprintf("chunk %d has sequence number %d, segment is %d", ci, f.Seq, n))
				}
				rep.Hit("C09.d")
				maxS := uint64(0)
				for _, sm := range f.Samples {
					if uint64(sm.Dur) > maxS {
						maxS = uint64(sm.Dur)
					}
				}
				if f.Dur() > chunkTicks+maxS {
					s.Fail("C09.d:chunk-too-long", fmt.Sprintf("chunk %d spans %d ticks, segment-ato is %d ticks (+1 sample %d)", ci, f.Dur(), chunkTicks, maxS))
				}
				rep.Hit("C09.e")
				endOff := f.MdatStart // position in the decrypted re-encoding is not the wire position: use the wire boxes
				_ = endOff
			}
			// wire positions of chunk ends: every mdat box end in the wire body
			ci := 0
			for _, b := range top {
				if b.Type != "mdat" {
					continue
				}
				if ci >= len(sgAll.Frags) {
					break
				}
				f := sgAll.Frags[ci]
				wAt := writtenAt(b.Start + b.Size)
				chunkEndMS := ast + vref.TicksToMSFloor(f.Tfdt+f.Dur(), r.TS)
				if wAt < chunkEndMS {
					s.Fail("C09.e:chunk-early", fmt.Sprintf("chunk %d (media end %d ms) was written at %d ms, %d ms early", ci, chunkEndMS, wAt, chunkEndMS-wAt))
				}
				if ci == 0 && t == tAdv {
					rep.Hit("C09.f")
					if wAt-t > sampleMS {
						s.Fail("C09.f:first-chunk-delayed", fmt.Sprintf("request at the advertised availability time: first chunk written after %d ms", wAt-t))
					}
				}
				ci++
			}
			s.Observe(fmt.Sprintf("%d chunks", len(sgAll.Frags)))
		}
		st := vrt.Explore(vrt.ExploreOpts{RunOpts: vrt.RunOpts{StartNS: t * 1_000_000, WatchdogS: 60}, Bound: 1, MaxExec: 200}, run)
		_ = last
		rep.AddStates(int64(st.Points) + int64(st.Executions))
		rep.AddTrans(int64(st.Points))
		rep.AddExecs(int64(st.Executions))
		for o, c := range st.Outcomes {
			rep.Outcomes[o] += c
		}
		for _, f := range st.Failures {
			if strings.HasPrefix(f.Sig, "engine:") {
				rep.Violate("C09.engine", f.Sig, f.Msg, nil)
				continue
			}
			parts := strings.SplitN(f.Sig, ":", 2)
			clause, sig := "C09.a", f.Sig
			if len(parts) == 2 && strings.HasPrefix(parts[0], "C09.") {
				clause, sig = parts[0], parts[1]
			}
			viol(clause, sig, fmt.Sprintf("t=%d (advertised availability %d): %s", t, tAdv, f.Msg), url, f.Choices)
		}
		// the request context ends while the writer waits for a chunk (client gone, server time-out, session deleted):
		// bytes may be missing from then on, but none is written earlier than in the undisturbed response
		if t == tAdv || t == tAdv+1 {
			serve := func(cancelAfterMS int64) *c09Writer {
				w := &c09Writer{hdr: http.Header{}}
				vrt.Run(nil, vrt.RunOpts{StartNS: t * 1_000_000, WatchdogS: 60, AllowBlockedDaemons: true, EndWithMain: true}, func(s *vrt.Sched) {
					w.s = s
					req := httptest.NewRequest("GET", url, nil)
					if cancelAfterMS > 0 {
						ctx, cancel := vrt.WithCancel(req.Context())
						req = req.WithContext(ctx)
						vrt.Go(func() {
							s.Sleep(cancelAfterMS * 1_000_000)
							cancel()
						})
					}
					srv.Router.ServeHTTP(w, req)
				})
				return w
			}
			base := serve(0)
			rep.AddExecs(1)
			segMS := (vref.TicksToMSCeil(segE, r.TS) - vref.TicksToMSCeil(segS, r.TS))
			for _, after := range []int64{1, segMS / 16, segMS / 5, segMS / 3, segMS / 2} {
				if after <= 0 || base.code != 200 {
					continue
				}
				c := serve(after)
				rep.AddExecs(1)
				rep.Hit("C09.e")
				// only the part that is the media response counts (an error text may follow once the context has ended)
				bb, cb := base.buf.Bytes(), c.buf.Bytes()
				common := 0
				for common < len(bb) && common < len(cb) && bb[common] == cb[common] {
					common++
				}
				bo, co := 0, 0
				bi := 0
				for _, x := range c.writes {
					co += x.n
					if co > common {
						break
					}
					for bi < len(base.writes) && bo+base.writes[bi].n < co {
						bo += base.writes[bi].n
						bi++
					}
					if bi < len(base.writes) && x.atMS < base.writes[bi].atMS {
						viol("C09.e", "chunk-early:after-context-end", fmt.Sprintf("t=%d, request context ended %d ms later: byte %d of the response was written at %d ms, the undisturbed response writes it at %d ms", t, after, co, x.atMS, base.writes[bi].atMS), url, nil)
						break
					}
				}
			}
		}
	}
	rep.Sample(map[string]any{"asset": asset, "rep": r.ID, "atoMS": atoMS, "drm": d, "start": start, "n": n, "instants": ts})
}

// c09OtherKinds: the representations that are not re-chunked sample by sample (subtitles, thumbnails, generated
// subtitles) must still be served in low-latency mode, with the content of the whole segment.
func c09OtherKinds(rep *vh.Report) {
	srv, err := vServer(vBundledRoot)
	if err != nil {
		return
	}
	payload := func(body []byte, name string) []byte {
		if strings.HasSuffix(name, ".jpg") {
			return body
		}
		bx, err := vref.Boxes(body)
		if err != nil {
			return nil
		}
		var out []byte
		for _, b := range bx {
			if b.Type == "mdat" && len(b.Raw) >= 8 {
				out = append(out, b.Raw[8:]...)
			}
		}
		return out
	}
	for _, k := range []struct{ cfg, name string }{
		{"", "imsc1_txt_sv/300.m4s"}, {"", "imsc1_img_en/300.m4s"}, {"", "thumbs/300.jpg"},
		{"timesubsstpp_en", "timestpp-en/300.m4s"}, {"timesubswvtt_en,sv", "timewvtt-sv/300.m4s"}, {"timesubsstpp_en", "V300/300.m4s"},
	} {
		for _, ll := range [][]string{{"chunkdur_0.5", "ato_1"}, {"chunkdur_1", "ato_1.5"}, {"segtimelinenr_1", "chunkdur_0.5", "ato_1"}} {
			now := int64(602005)
			wu := fmt.Sprintf("%s/testpic_2s/%s?nowMS=%d", vCfgPrefix(append([]string{k.cfg}, ll[:len(ll)-2]...)...), k.name, now)
			cu := fmt.Sprintf("%s/testpic_2s/%s?nowMS=%d", vCfgPrefix(append([]string{k.cfg}, ll...)...), k.name, now)
			var whole, chunked *c09Writer
			get := func(u string, dst **c09Writer) {
				vrt.Run(nil, vrt.RunOpts{StartNS: now * 1_000_000, WatchdogS: 60, LoopHorizon: 3_000_000}, func(s *vrt.Sched) {
					w := &c09Writer{hdr: http.Header{}, s: s}
					*dst = w
					srv.Router.ServeHTTP(w, httptest.NewRequest("GET", u, nil))
				})
			}
			get(wu, &whole)
			get(cu, &chunked)
			rep.AddExecs(2)
			rep.AddStates(1)
			rep.Hit("C09.a")
			if whole == nil || chunked == nil || whole.code != 200 {
				continue // not served at all in ordinary mode: nothing to compare with
			}
			kind := strings.SplitN(k.name, "/", 2)[0]
			in := map[string]any{"url": cu, "whole": wu}
			if chunked.code != 200 {
				rep.Violate("C09.a", fmt.Sprintf("status-%d:%s", chunked.code, kind), fmt.Sprintf("%s answers %d %q in low-latency mode, 200 in ordinary mode (%s)", cu, chunked.code, vTrim(chunked.buf.Bytes()), wu), in)
				continue
			}
			if !bytes.Equal(payload(whole.buf.Bytes(), k.name), payload(chunked.buf.Bytes(), k.name)) {
				rep.Violate("C09.a", "payload-differs:"+kind, fmt.Sprintf("%s: the media data differs from that of the whole segment (%s)", cu, wu), in)
			}
		}
	}
}
