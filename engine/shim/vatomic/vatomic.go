// Package vatomic shadows "sync/atomic" types used by livesim2.
package vatomic

import (
	"sync/atomic"

	"github.com/Dash-Industry-Forum/livesim2/internal/vshim/vrt"
)

type (
	Value = atomic.Value
)

type Uint64 struct {
	real atomic.Uint64
	hb   vrt.Sync
}

func (u *Uint64) pt(k string) *vrt.Sched {
	s := vrt.Cur()
	if s != nil {
		s.Point(k)
		s.Acquire(&u.hb)
		s.Release(&u.hb)
	}
	return s
}
func (u *Uint64) Load() uint64         { u.pt("atomic.Load"); return u.real.Load() }
func (u *Uint64) Store(v uint64)       { u.pt("atomic.Store"); u.real.Store(v) }
func (u *Uint64) Add(d uint64) uint64  { u.pt("atomic.Add"); return u.real.Add(d) }
func (u *Uint64) Swap(v uint64) uint64 { u.pt("atomic.Swap"); return u.real.Swap(v) }
func (u *Uint64) CompareAndSwap(o, n uint64) bool {
	u.pt("atomic.CAS")
	return u.real.CompareAndSwap(o, n)
}

type Int64 struct {
	real atomic.Int64
	hb   vrt.Sync
}

func (u *Int64) pt(k string) {
	if s := vrt.Cur(); s != nil {
		s.Point(k)
		s.Acquire(&u.hb)
		s.Release(&u.hb)
	}
}
func (u *Int64) Load() int64       { u.pt("atomic.Load"); return u.real.Load() }
func (u *Int64) Store(v int64)     { u.pt("atomic.Store"); u.real.Store(v) }
func (u *Int64) Add(d int64) int64 { u.pt("atomic.Add"); return u.real.Add(d) }
func (u *Int64) CompareAndSwap(o, n int64) bool {
	u.pt("atomic.CAS")
	return u.real.CompareAndSwap(o, n)
}

type Int32 struct {
	real atomic.Int32
	hb   vrt.Sync
}

func (u *Int32) pt(k string) {
	if s := vrt.Cur(); s != nil {
		s.Point(k)
		s.Acquire(&u.hb)
		s.Release(&u.hb)
	}
}
func (u *Int32) Load() int32       { u.pt("atomic.Load"); return u.real.Load() }
func (u *Int32) Store(v int32)     { u.pt("atomic.Store"); u.real.Store(v) }
func (u *Int32) Add(d int32) int32 { u.pt("atomic.Add"); return u.real.Add(d) }

type Bool struct {
	real atomic.Bool
	hb   vrt.Sync
}

func (u *Bool) pt(k string) {
	if s := vrt.Cur(); s != nil {
		s.Point(k)
		s.Acquire(&u.hb)
		s.Release(&u.hb)
	}
}
func (u *Bool) Load() bool   { u.pt("atomic.Load"); return u.real.Load() }
func (u *Bool) Store(v bool) { u.pt("atomic.Store"); u.real.Store(v) }
