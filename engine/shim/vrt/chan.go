package vrt

import (
	"context"
	"reflect"
	"time"
	"unsafe"
)

// Modelled channels. The real channel object is only used as an identity (and
// for its capacity); all data flows through the model, so that blocking,
// buffering, rendezvous and close are decided by the scheduler.

type chanModel struct {
	cap    int
	buf    []any
	closed bool
	sync   Sync
	keep   any
	name   string
}

type commitT struct {
	caseIdx int
	val     any
	ok      bool
}

// Case is one communication clause of a select.
type Case struct {
	m    *chanModel
	send bool
	val  any
	ctx  context.Context
	real reflect.Value // for the fall-through path
}

type selOp struct {
	cases  []Case
	commit *commitT
}

func chanPtr[T any](ch <-chan T) uintptr { return *(*uintptr)(unsafe.Pointer(&ch)) }

func modelOf[T any](s *Sched, ch <-chan T) *chanModel {
	p := chanPtr(ch)
	if p == 0 {
		return nil // nil channel: never ready
	}
	m := s.chans[p]
	if m == nil {
		m = &chanModel{cap: cap(ch), keep: ch}
		s.chans[p] = m
	}
	return m
}

// selState is stored on the thread's pending op.
func (s *Sched) waitSel(cases []Case, hasDefault bool, kind string) (int, any, bool) {
	so := &selOp{cases: cases}
	me := s.cur
	ready := func() []int {
		var r []int
		for i, c := range cases {
			switch {
			case c.ctx != nil:
				if c.ctx.Err() != nil {
					r = append(r, i)
				}
			case c.m == nil:
			case c.send:
				if c.m.closed || (c.m.cap > 0 && len(c.m.buf) < c.m.cap) || (c.m.cap == 0 && s.recvWaiter(c.m, me) != nil) {
					r = append(r, i)
				}
			default:
				if len(c.m.buf) > 0 || c.m.closed {
					r = append(r, i)
				}
			}
		}
		return r
	}
	op := &Op{Kind: kind, sel: so}
	op.Enabled = func() bool {
		if so.commit != nil || hasDefault {
			return true
		}
		return len(ready()) > 0
	}
	s.Yield(op)
	if so.commit != nil {
		c := cases[so.commit.caseIdx]
		s.Acquire(&c.m.sync)
		return so.commit.caseIdx, so.commit.val, so.commit.ok
	}
	r := ready()
	if len(r) == 0 {
		return -1, nil, false // default
	}
	k := r[0]
	if len(r) > 1 {
		k = r[ChooseFree(len(r), "select")]
	}
	c := cases[k]
	switch {
	case c.ctx != nil:
		s.Acquire(&s.ctxSync)
		return k, struct{}{}, false
	case c.send:
		if c.m.closed {
			panic("send on closed channel")
		}
		if c.m.cap > 0 {
			s.Release(&c.m.sync)
			c.m.buf = append(c.m.buf, c.val)
		} else {
			w := s.recvWaiter(c.m, me)
			s.Release(&c.m.sync)
			for i, wc := range w.pend.sel.cases {
				if !wc.send && wc.m == c.m {
					w.pend.sel.commit = &commitT{caseIdx: i, val: c.val, ok: true}
					break
				}
			}
		}
		return k, nil, true
	default:
		s.Acquire(&c.m.sync)
		if len(c.m.buf) > 0 {
			v := c.m.buf[0]
			c.m.buf = c.m.buf[1:]
			s.Release(&c.m.sync) // a blocked sender on a full buffer is ordered after this receive
			return k, v, true
		}
		return k, nil, false // closed
	}
}

// recvWaiter returns a thread (other than self) blocked in a receive on m that
// has not been committed yet. With several candidates the first in thread order
// is taken (FIFO by id; alternatives arise from the order in which receivers block).
func (s *Sched) recvWaiter(m *chanModel, self *thread) *thread {
	for _, t := range s.threads {
		if t == self || t.done || t.pend == nil || t.pend.sel == nil || t.pend.sel.commit != nil {
			continue
		}
		for _, c := range t.pend.sel.cases {
			if !c.send && c.m == m {
				return t
			}
		}
	}
	return nil
}

// Send is `ch <- v`.
func Send[T any](ch chan<- T, v T) {
	s := Cur()
	if s == nil {
		ch <- v
		return
	}
	bi := *(*<-chan T)(unsafe.Pointer(&ch))
	m := modelOf(s, bi)
	s.waitSel([]Case{{m: m, send: true, val: v}}, false, "send")
}

// Recv is `<-ch`.
func Recv[T any](ch <-chan T) T {
	v, _ := Recv2(ch)
	return v
}

// Recv2 is `v, ok := <-ch`.
func Recv2[T any](ch <-chan T) (T, bool) {
	s := Cur()
	if s == nil {
		v, ok := <-ch
		return v, ok
	}
	m := modelOf(s, ch)
	_, v, ok := s.waitSel([]Case{{m: m}}, false, "recv")
	if v == nil {
		var z T
		return z, ok
	}
	return v.(T), ok
}

// Close is close(ch).
func Close[T any](ch chan<- T) {
	s := Cur()
	if s == nil {
		close(ch)
		return
	}
	s.Point("close")
	bi := *(*<-chan T)(unsafe.Pointer(&ch))
	m := modelOf(s, bi)
	if m.closed {
		panic("close of closed channel")
	}
	m.closed = true
	s.Release(&m.sync)
}

// CaseRecv builds a receive clause.
func CaseRecv[T any](ch <-chan T) Case {
	s := Cur()
	if s == nil {
		return Case{real: reflect.ValueOf(ch)}
	}
	return Case{m: modelOf(s, ch)}
}

// CaseSend builds a send clause `ch <- v`.
func CaseSend[T any](ch chan<- T, v T) Case {
	s := Cur()
	if s == nil {
		return Case{real: reflect.ValueOf(ch), send: true, val: v}
	}
	bi := *(*<-chan T)(unsafe.Pointer(&ch))
	return Case{m: modelOf(s, bi), send: true, val: v}
}

// CaseCtx builds a `<-ctx.Done()` clause.
func CaseCtx(ctx context.Context) Case {
	if Cur() == nil {
		return Case{real: reflect.ValueOf(ctx.Done())}
	}
	return Case{ctx: ctx}
}

// Select blocks until one clause is ready (all clauses are receives in the code
// base) and returns its index and the received value.
func Select(cases ...Case) (int, any) {
	s := Cur()
	if s == nil {
		rc := make([]reflect.SelectCase, len(cases))
		for i, c := range cases {
			if c.send {
				rc[i] = reflect.SelectCase{Dir: reflect.SelectSend, Chan: c.real, Send: reflect.ValueOf(c.val)}
				continue
			}
			rc[i] = reflect.SelectCase{Dir: reflect.SelectRecv, Chan: c.real}
		}
		i, v, _ := reflect.Select(rc)
		if v.IsValid() {
			return i, v.Interface()
		}
		return i, nil
	}
	i, v, _ := s.waitSel(cases, false, "select")
	return i, v
}

// SelVal converts the value received by Select to the element type of ch.
func SelVal[T any](ch <-chan T, v any) T {
	if v == nil {
		var z T
		return z
	}
	return v.(T)
}

// CtxDone is `<-ctx.Done()` outside a select.
func CtxDone(ctx context.Context) {
	s := Cur()
	if s == nil {
		<-ctx.Done()
		return
	}
	s.waitSel([]Case{{ctx: ctx}}, false, "ctxdone")
}

// CancelPoint is called (by wrapped cancel functions) before a context is
// cancelled, so that the cancellation is a visible, ordered operation.
func CancelPoint() {
	if s := Cur(); s != nil {
		s.Point("cancel")
		s.Release(&s.ctxSync)
	}
}

// WithCancel wraps context.WithCancel so that cancel is a scheduling point.
func WithCancel(parent context.Context) (context.Context, context.CancelFunc) {
	ctx, cancel := context.WithCancel(parent)
	return ctx, func() {
		CancelPoint()
		cancel()
	}
}

// ---------------------------------------------------------------------------
// timers (virtual time)

type Timer struct {
	when   int64
	active bool
	m      *chanModel
	ch     chan int64
	fn     func()
}

// NewTimer registers a virtual timer firing at now+d (ns). The value delivered
// on the modelled channel is the virtual time in ns.
func (s *Sched) NewTimer(d int64, ch any, p uintptr, fn func()) *Timer {
	t := &Timer{when: s.now + d, active: true, fn: fn}
	if ch != nil {
		m := &chanModel{cap: 1, keep: ch}
		s.chans[p] = m
		t.m = m
	}
	s.timers = append(s.timers, t)
	if d <= 0 {
		s.fireTimers()
	}
	return t
}

func (s *Sched) fireTimers() {
	for _, t := range s.timers {
		if t.active && t.when <= s.now {
			t.active = false
			if t.m != nil && len(t.m.buf) < 1 {
				t.m.buf = append(t.m.buf, time.Unix(0, t.when).UTC())
			}
			if t.fn != nil {
				fn := t.fn
				s.spawnNoPoint("afterfunc", true, fn)
			}
		}
	}
}

// Stop stops the timer; reports whether it was active. Go 1.23 semantics: no
// stale value remains receivable after Stop.
func (s *Sched) StopTimer(t *Timer) bool {
	was := t.active || (t.m != nil && len(t.m.buf) > 0)
	t.active = false
	if t.m != nil {
		t.m.buf = nil
	}
	return was
}

// Reset re-arms the timer.
func (s *Sched) ResetTimer(t *Timer, d int64) bool {
	was := t.active || (t.m != nil && len(t.m.buf) > 0)
	if t.m != nil {
		t.m.buf = nil
	}
	t.when = s.now + d
	t.active = true
	found := false
	for _, x := range s.timers {
		if x == t {
			found = true
		}
	}
	if !found {
		s.timers = append(s.timers, t)
	}
	if d <= 0 {
		s.fireTimers()
	}
	return was
}

// Sleep blocks the running thread for d virtual ns.
func (s *Sched) Sleep(d int64) {
	if d <= 0 {
		s.Point("sleep0")
		return
	}
	s.Yield(&Op{Kind: "sleep", Until: s.now + d})
}
