package app

// C08 (receiver side) — no upload body can crash the receiver or make it spin.
// Every sequence of <= 3 boxes from a box alphabet (valid and impossible boxes), with and without a
// prior init segment, for video/audio/text and Streams() paths; each case on a fresh receiver under
// the vrt runtime, so that a panic in the channel goroutine is caught as well.

import (
	"bytes"
	"context"
	"encoding/binary"
	"fmt"
	"net/http/httptest"
	"os"
	"runtime"
	"strings"
	"testing"

	"github.com/Dash-Industry-Forum/livesim2/internal/vshim/vh"
	"github.com/Dash-Industry-Forum/livesim2/internal/vshim/vref"
	"github.com/Dash-Industry-Forum/livesim2/internal/vshim/vrt"
)

func c08Alphabet(tr *rTrack) map[string][]byte {
	al := map[string][]byte{}
	ib, _ := vref.Boxes(tr.init)
	for _, b := range ib {
		if b.Type == "ftyp" || b.Type == "moov" {
			al[b.Type] = b.Raw
		}
	}
	sb, _ := vref.Boxes(tr.segs[1])
	for _, b := range sb {
		if b.Type == "styp" || b.Type == "moof" || b.Type == "mdat" {
			if _, ok := al[b.Type]; !ok {
				al[b.Type] = b.Raw
			}
		}
	}
	hdr := func(size uint32, typ string, extra int) []byte {
		b := make([]byte, 8+extra)
		binary.BigEndian.PutUint32(b, size)
		copy(b[4:], typ)
		return b
	}
	al["tiny"] = hdr(4, "mdat", 0)
	al["zero"] = hdr(0, "moof", 4)
	al["big"] = hdr(100000, "mdat", 16)
	al["free"] = hdr(16, "free", 8)
	if m, ok := al["moof"]; ok {
		al["moofcut"] = append([]byte{}, m[:len(m)/2]...)
		x := append([]byte{}, m...)
		for i := 8; i < len(x); i++ { // valid size, garbage inside
			x[i] = 0xff
		}
		al["moofbad"] = x
	}
	if m, ok := al["moov"]; ok {
		al["moovcut"] = append([]byte{}, m[:len(m)/3]...)
	}
	al["junk"] = append(hdr(9, "junk", 0), 'X') // unknown box with an odd size (no huge declared sizes: see DESIGN section 5)
	return al
}

func TestVerifC08R(t *testing.T) {
	rep := vh.NewReport("C08")
	defer rep.Write()
	tracks, err := rLoadTracks()
	if err != nil {
		t.Fatalf("testdata: %v", err)
	}
	sh, _ := vh.Shard()
	root, err := rScratch(fmt.Sprintf("c08-%d", sh))
	if err != nil {
		t.Fatalf("scratch: %v", err)
	}
	defer os.RemoveAll(root)
	quick := vh.Quick()
	type pathT struct{ track, path string }
	paths := []pathT{
		{"video-500Kbps", "/upload/ch1/video-500Kbps/1.cmfv"},
		{"audio-nor-128Kbps", "/upload/ch1/audio-nor-128Kbps/1.cmfa"},
		{"text-nor-0", "/upload/ch1/text-nor-0/1.cmft"},
		{"video-500Kbps", "/upload/ch1/Streams(video-500Kbps.cmfv)"},
	}
	if sh == 0 {
		c08rDeclaredLength(rep, root, tracks["video-500Kbps"])
	}
	caseNr := 0
	for _, pt := range paths {
		tr := tracks[pt.track]
		al := c08Alphabet(tr)
		var names []string
		for k := range al {
			names = append(names, k)
		}
		sortStrings(names)
		var seqs [][]string
		for _, a := range names {
			seqs = append(seqs, []string{a})
			for _, b := range names {
				seqs = append(seqs, []string{a, b})
				if !quick || pt.path == paths[0].path {
					for _, c := range names {
						seqs = append(seqs, []string{a, b, c})
					}
				}
			}
		}
		for _, seq := range seqs {
			for _, prior := range []bool{false, true} {
				caseNr++
				if !vh.Mine(caseNr) {
					continue
				}
				if rep.OutOfBudget() {
					return
				}
				var body []byte
				for _, b := range seq {
					body = append(body, al[b]...)
				}
				if c08rNaiveMax(body) > 1<<26 {
					// a parser that follows size fields would be told to buffer > 64 MiB: resource use, not termination
					rep.Hit("C08.skipped-huge-declared-size")
					continue
				}
				label := fmt.Sprintf("%s prior-init=%v boxes=%s", pt.path, prior, strings.Join(seq, "+"))
				storage := fmt.Sprintf("%s/case%d", root, caseNr)
				_ = os.MkdirAll(storage, 0o755)
				var codes []int
				var crashed bool
				x := vrt.Run(nil, vrt.RunOpts{LoopHorizon: 2_000_000, WatchdogS: 60, AllowBlockedDaemons: true, StartNS: 1_700_000_000_000_000_000}, func(s *vrt.Sched) {
					ctx, cancel := context.WithCancel(context.Background())
					defer cancel()
					rc, h, err := rNewReceiver(ctx, storage, nil, 30)
					if err != nil {
						s.Fail("setup", err.Error())
						return
					}
					if prior {
						ip := strings.Replace(pt.path, "/1.cmf", "/init.cmf", 1)
						r0 := rPut(h, ip, tr.init, true, "", "")
						codes = append(codes, r0.Code)
					}
					for _, withLen := range []bool{true, false} {
						r1 := rPut(h, pt.path, body, withLen, "", "")
						codes = append(codes, r1.Code)
						if r1.crashed() {
							crashed = true
							site, val := rPanicSite(rc, pt.path, body)
							if val != "{}" { // {} = the runtime's own abort sentinel swallowed by Recoverer while an execution is being torn down
								s.Fail("panic:"+site+":"+c08rClass(val), fmt.Sprintf("handler crashed: %s", val))
							}
						}
					}
					// a following well-formed upload must still be answered
					r2 := rPut(h, pt.path, tr.segs[2], true, "", "")
					codes = append(codes, r2.Code)
					if r2.crashed() && !crashed {
						site, val := rPanicSite(rc, pt.path, tr.segs[2])
						if val != "{}" {
							s.Fail("panic-after:"+site+":"+c08rClass(val), fmt.Sprintf("well-formed upload after the hostile one crashed: %s", val))
						}
					}
					s.Quiesce()
				})
				_ = os.RemoveAll(storage)
				rep.AddStates(1)
				rep.AddTrans(int64(len(codes)))
				rep.AddExecs(1)
				rep.Hit("C08.a")
				rep.Hit("C08.b")
				rep.Outcome(fmt.Sprint(codes))
				in := map[string]any{"case": label, "body_hex_prefix": fmt.Sprintf("%x", trunc(body, 48))}
				for _, f := range x.Fails {
					switch {
					case f.Sig == "livelock" || f.Sig == "hang":
						rep.Violate("C08.b", "receiver-hang:"+seqClass(seq), label+": "+f.Msg, in)
					case f.Sig == "deadlock":
						rep.Violate("C08.b", "receiver-blocked", label+": "+f.Msg, in)
					case strings.HasPrefix(f.Sig, "panic"):
						rep.Violate("C08.a", "receiver-"+f.Sig, label+": "+f.Msg, in)
					}
				}
				if x.Hung {
					rep.Cap("hang-outside-rewritten-code")
					return
				}
			}
		}
		rep.Sample(map[string]any{"path": pt.path, "alphabet": names, "sequences": len(seqs)})
	}
}

// c08rRemovals returns, for every box below the top level of data (inside the usual containers), a copy of data with
// that box cut out and the sizes of its ancestors corrected: structurally valid MP4 with one child missing.
func c08rRemovals(data []byte) map[string][]byte {
	out := map[string][]byte{}
	containers := map[string]bool{"moov": true, "trak": true, "mdia": true, "minf": true, "stbl": true, "mvex": true, "dinf": true, "edts": true, "moof": true, "traf": true}
	var walk func(start, end int, anc []int, path string)
	walk = func(start, end int, anc []int, path string) {
		for off := start; off+8 <= end; {
			sz := int(binary.BigEndian.Uint32(data[off:]))
			ty := string(data[off+4 : off+8])
			if sz < 8 || off+sz > end {
				return
			}
			if len(anc) > 0 {
				v := append(append([]byte{}, data[:off]...), data[off+sz:]...)
				for _, a := range anc {
					binary.BigEndian.PutUint32(v[a:], binary.BigEndian.Uint32(data[a:])-uint32(sz))
				}
				name := path + "/" + ty
				for k := 2; ; k++ { // second trak, second traf, ...
					if _, dup := out[name]; !dup {
						break
					}
					name = fmt.Sprintf("%s/%s#%d", path, ty, k)
				}
				out[name] = v
			}
			if containers[ty] {
				walk(off+8, off+sz, append(append([]int{}, anc...), off), path+"/"+ty)
			}
			off += sz
		}
	}
	walk(0, len(data), nil, "")
	return out
}

// TestVerifC08R2: uploads that are well-formed MP4 with one child box missing (init and media), each followed by
// well-formed uploads on the same channel.
func TestVerifC08R2(t *testing.T) {
	rep := vh.NewReport("C08")
	defer rep.Write()
	tracks, err := rLoadTracks()
	if err != nil {
		t.Fatalf("testdata: %v", err)
	}
	sh, _ := vh.Shard()
	root, err := rScratch(fmt.Sprintf("c08r2-%d", sh))
	if err != nil {
		t.Fatalf("scratch: %v", err)
	}
	defer os.RemoveAll(root)
	caseNr := 0
	for _, tn := range []string{"video-500Kbps", "audio-nor-128Kbps", "text-nor-0"} {
		tr := tracks[tn]
		ext := map[string]string{"video-500Kbps": "cmfv", "audio-nor-128Kbps": "cmfa", "text-nor-0": "cmft"}[tn]
		initPath, segPath := fmt.Sprintf("/upload/ch1/%s/init.%s", tn, ext), fmt.Sprintf("/upload/ch1/%s/%%d.%s", tn, ext)
		type variant struct {
			name     string
			init, sg []byte
		}
		var vs []variant
		ir, sr := c08rRemovals(tr.init), c08rRemovals(tr.segs[1])
		var in, sn []string
		for k := range ir {
			in = append(in, k)
		}
		for k := range sr {
			sn = append(sn, k)
		}
		sortStrings(in)
		sortStrings(sn)
		for _, k := range in {
			vs = append(vs, variant{"init-without" + k, ir[k], tr.segs[1]})
		}
		for _, k := range sn {
			vs = append(vs, variant{"media-without" + k, tr.init, sr[k]})
		}
		for _, v := range vs {
			caseNr++
			if !vh.Mine(caseNr) {
				continue
			}
			v := v
			label := tn + " " + v.name
			storage := fmt.Sprintf("%s/case%d", root, caseNr)
			_ = os.MkdirAll(storage, 0o755)
			var codes []int
			x := vrt.Run(nil, vrt.RunOpts{LoopHorizon: 2_000_000, WatchdogS: 60, AllowBlockedDaemons: true, StartNS: 1_700_000_000_000_000_000}, func(s *vrt.Sched) {
				ctx, cancel := context.WithCancel(context.Background())
				defer cancel()
				rc, h, err := rNewReceiver(ctx, storage, nil, 30)
				if err != nil {
					s.Fail("setup", err.Error())
					return
				}
				put := func(what, path string, body []byte) {
					r := rPut(h, path, body, true, "", "")
					codes = append(codes, r.Code)
					if r.crashed() {
						site, val := rPanicSite(rc, path, body)
						if val != "{}" {
							s.Fail("panic:"+site+":"+c08rClass(val), fmt.Sprintf("%s crashed the handler: %s", what, val))
						}
					}
				}
				put("the init segment", initPath, v.init)
				put("the media segment", fmt.Sprintf(segPath, 1), v.sg)
				put("a following media segment", fmt.Sprintf(segPath, 2), tr.segs[2])
				put("a well-formed init segment afterwards", initPath, tr.init)
				put("a well-formed media segment afterwards", fmt.Sprintf(segPath, 3), tr.segs[3])
				s.Quiesce()
			})
			_ = os.RemoveAll(storage)
			rep.AddStates(1)
			rep.AddTrans(int64(len(codes)))
			rep.AddExecs(1)
			rep.Hit("C08.a")
			rep.Hit("C08.b")
			rep.Outcome(fmt.Sprint(codes))
			in := map[string]any{"case": label}
			for _, f := range x.Fails {
				switch {
				case f.Sig == "livelock" || f.Sig == "hang":
					rep.Violate("C08.b", "receiver-hang:missing-child", label+": "+f.Msg, in)
				case f.Sig == "deadlock":
					rep.Violate("C08.b", "receiver-blocked:missing-child", label+": "+f.Msg, in)
				case strings.HasPrefix(f.Sig, "panic"):
					rep.Violate("C08.a", "receiver-"+f.Sig+":"+v.name, label+": "+f.Msg, in)
				}
			}
			if x.Hung {
				rep.Cap("hang-outside-rewritten-code")
				return
			}
		}
	}
}

func c08rClass(v string) string {
	switch {
	case strings.Contains(v, "index out of range"):
		return "index-out-of-range"
	case strings.Contains(v, "slice bounds"):
		return "slice-bounds"
	case strings.Contains(v, "nil pointer"):
		return "nil-deref"
	case strings.Contains(v, "divide by zero"):
		return "divide-by-zero"
	}
	if len(v) > 40 {
		v = v[:40]
	}
	return v
}

func seqClass(seq []string) string {
	for _, s := range seq {
		if s == "tiny" || s == "zero" || s == "big" {
			return s
		}
	}
	return "other"
}

func trunc(b []byte, n int) []byte {
	if len(b) > n {
		return b[:n]
	}
	return b
}

func sortStrings(s []string) {
	for i := 1; i < len(s); i++ {
		for j := i; j > 0 && s[j] < s[j-1]; j-- {
			s[j], s[j-1] = s[j-1], s[j]
		}
	}
}

// c08rNaiveMax follows size fields blindly and returns the largest size it meets.
func c08rNaiveMax(data []byte) uint32 {
	var max uint32
	pos := uint64(0)
	for steps := 0; steps < 10000 && pos+8 <= uint64(len(data)); steps++ {
		size := binary.BigEndian.Uint32(data[pos:])
		if size > max {
			max = size
		}
		if size < 8 {
			break
		}
		pos += uint64(size)
	}
	return max
}

// c08rDeclaredLength: uploads whose Content-Length header field does not say how long the body is -- absent, zero,
// too small, too large, negative, not a number, and beyond what can be allocated -- in parsing mode and in raw mode
// (receiveNrRawSegments > 0), for an init and a media upload. The handler must answer every one of them deliberately.
// Values between 2^31 and 2^47 are left out on purpose: where the handler allocates what the field says, they would
// not fail but take the machine's memory (a sandbox hazard, not a verdict).
func c08rDeclaredLength(rep *vh.Report, root string, tr *rTrack) {
	type up struct {
		name, path string
		body       []byte
	}
	ups := []up{{"init", "/upload/ch1/video-500Kbps/init.cmfv", tr.init}, {"media", "/upload/ch1/video-500Kbps/1.cmfv", tr.segs[0]}}
	caseNr := 0
	for _, raws := range []uint64{0, 2} {
		for _, u := range ups {
			n := len(u.body)
			for _, cl := range []string{"", "0", "1", "7", "8", "4095", "4096", fmt.Sprint(n - 1), fmt.Sprint(n), fmt.Sprint(n + 1), fmt.Sprint(2 * n), "-1", "-4096", "-9223372036854775808",
				"abc", " 12", "12 ", "1e3", "0x10", "+5", "9223372036854775807", "4611686018427387904", "1152921504606846976", "9223372036854775808", "18446744073709551616", "99999999999999999999999"} {
				caseNr++
				storage := fmt.Sprintf("%s/declen%d", root, caseNr)
				_ = os.MkdirAll(storage, 0o755)
				label := fmt.Sprintf("%s upload, Content-Length %q, %d body bytes, receiveNrRawSegments=%d", u.name, cl, n, raws)
				var codes []int
				x := vrt.Run(nil, vrt.RunOpts{LoopHorizon: 2_000_000, WatchdogS: 60, AllowBlockedDaemons: true, StartNS: 1_700_000_000_000_000_000}, func(s *vrt.Sched) {
					ctx, cancel := context.WithCancel(context.Background())
					defer cancel()
					opts := Options{prefix: "/upload", timeShiftBufferDepthS: 30, storage: storage, receiveNrRawSegments: raws}
					rc, err := NewReceiver(ctx, &opts, GetEmptyConfig())
					if err != nil {
						s.Fail("setup", err.Error())
						return
					}
					put := func(path string, body []byte, cl string) (code int) {
						defer func() {
							if p := recover(); p != nil {
								if vrt.IsAbort(p) {
									panic(p)
								}
								buf := make([]byte, 16384)
								buf = buf[:runtime.Stack(buf, false)]
								s.Fail("panic:"+rStackSite(string(buf))+":"+c08rClass(fmt.Sprint(p)), fmt.Sprintf("handler crashed: %v", p))
								code = -1
							}
						}()
						req := httptest.NewRequest("PUT", path, bytes.NewReader(body))
						req.Header.Del("Content-Length")
						if cl != "" {
							req.Header.Set("Content-Length", cl)
						}
						w := httptest.NewRecorder()
						rc.SegmentHandlerFunc(w, req)
						return w.Code
					}
					if u.name == "media" && raws == 0 {
						codes = append(codes, put(ups[0].path, ups[0].body, fmt.Sprint(len(ups[0].body))))
					}
					codes = append(codes, put(u.path, u.body, cl))
					// a following well-formed upload must still be answered
					codes = append(codes, put("/upload/ch1/video-500Kbps/2.cmfv", tr.segs[1], fmt.Sprint(len(tr.segs[1]))))
					s.Quiesce()
				})
				_ = os.RemoveAll(storage)
				rep.AddStates(1)
				rep.AddTrans(int64(len(codes)))
				rep.AddExecs(1)
				rep.Hit("C08.a")
				rep.Hit("C08.b")
				rep.Outcome("declared-length:" + fmt.Sprint(codes))
				in := map[string]any{"case": label}
				for _, f := range x.Fails {
					switch {
					case f.Sig == "livelock" || f.Sig == "hang":
						rep.Violate("C08.b", "receiver-hang:declared-length", label+": "+f.Msg, in)
					case f.Sig == "deadlock":
						rep.Violate("C08.b", "receiver-blocked:declared-length", label+": "+f.Msg, in)
					case strings.HasPrefix(f.Sig, "panic"):
						rep.Violate("C08.a", "receiver-"+f.Sig, label+": "+f.Msg, in)
					}
				}
				if x.Hung {
					rep.Cap("hang-outside-rewritten-code")
					return
				}
			}
		}
	}
}
