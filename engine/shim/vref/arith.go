package vref

import "math/big"

// CeilMulDiv returns ceil(a*b/c) exactly.
func CeilMulDiv(a, b, c uint64) uint64 {
	x := new(big.Int).Mul(new(big.Int).SetUint64(a), new(big.Int).SetUint64(b))
	q, m := new(big.Int).QuoRem(x, new(big.Int).SetUint64(c), new(big.Int))
	if m.Sign() != 0 {
		q.Add(q, big.NewInt(1))
	}
	return q.Uint64()
}

// FloorMulDiv returns floor(a*b/c) exactly.
func FloorMulDiv(a, b, c uint64) uint64 {
	x := new(big.Int).Mul(new(big.Int).SetUint64(a), new(big.Int).SetUint64(b))
	return x.Quo(x, new(big.Int).SetUint64(c)).Uint64()
}

// AudioBoundary: first audio frame boundary (in audio ticks) at or after video time x
// (video ticks): ceil(x*tsA / (tsV*frame)) * frame.
func AudioBoundary(x, tsV, tsA uint64, frame uint32) uint64 {
	return CeilMulDiv(x, tsA, tsV*uint64(frame)) * uint64(frame)
}

// TicksToMSCeil: smallest ms instant m with m/1000 >= ticks/ts.
func TicksToMSCeil(ticks, ts uint64) int64 { return int64(CeilMulDiv(ticks, 1000, ts)) }

// TicksToMSFloor: floor(ticks*1000/ts).
func TicksToMSFloor(ticks, ts uint64) int64 { return int64(FloorMulDiv(ticks, 1000, ts)) }
