package app

// C13 (part ii) — SCTE-35 at the HTTP level: every video, audio and text segment of 6 minutes after
// stream start and 6 minutes around the PTS wrap; MPD signalling; rejected N.

import (
	"fmt"
	"sort"
	"strings"
	"testing"

	"github.com/Dash-Industry-Forum/livesim2/internal/vshim/vh"
	"github.com/Dash-Industry-Forum/livesim2/internal/vshim/vref"
)

const c13Scheme = "urn:scte:scte35:2013:bin"

func TestVerifC13H(t *testing.T) {
	rep := vh.NewReport("C13")
	defer rep.Write()
	quick := vh.Quick()
	roots := []string{vBundledRoot}
	if g := vGenRoot(); g != "" {
		roots = append(roots, g)
		if x := vGenExtraRoot(); x != "" {
			roots = append(roots, x) // a 10 MHz video timescale
		}
	}
	job := 0
	for _, root := range roots {
		for _, ap := range vAssetPaths(root) {
			if !vExtraWanted(root, ap, "x_ts_10mhz") {
				continue
			}
			if vTimeOffsetAsset(ap) {
				continue
			}
			a, err := vAsset(root, ap)
			if err != nil || !a.LoopExact || a.Ref.Kind != "video" {
				continue
			}
			if quick && strings.HasPrefix(ap, "WAVE") && strings.Contains(ap, "12.5") {
				continue
			}
			srv, err := vServer(root)
			if err != nil {
				t.Fatalf("server: %v", err)
			}
			if _, ok := srv.assetMgr.assets[ap]; !ok {
				continue
			}
			for N := 1; N <= 3; N++ {
				for _, byTime := range []bool{false, true} {
					job++
					if !vh.Mine(job) {
						continue
					}
					if rep.OutOfBudget() {
						return
					}
					c13RunHTTP(rep, srv, a, ap, N, byTime, quick, false)
					if ap == "testpic_2s" && !byTime {
						// low-latency chunked delivery of the same stream must carry the same events
						c13RunHTTP(rep, srv, a, ap, N, byTime, quick, true)
					}
					if ap == "testpic_2s" {
						// a stream that does not start on a wall-clock minute: the offsets are those of the wall clock
						c13Start = 1_700_000_017
						c13RunHTTP(rep, srv, a, ap, N, byTime, quick, false)
						c13Start = 0
					}
					if ap == "testpic_2s" || ap == "testpic_8s" {
						// the same stream numbered from another startNumber, on the same server instance (and in the same
						// process) that has answered the numbers before: a number alone does not say which instant it is
						for _, k := range []int64{5, 1} {
							c13Snr = k
							c13RunHTTP(rep, srv, a, ap, N, byTime, quick, false)
						}
						c13Snr = 0
					}
				}
			}
		}
	}
	if sh, _ := vh.Shard(); sh == 0 {
		srv, _ := vServer(vBundledRoot)
		for _, n := range []string{"0", "4", "-1", "x", ""} {
			u := fmt.Sprintf("/livesim2/scte35_%s/testpic_2s/Manifest.mpd?nowMS=100000", n)
			r := vGet(srv, u)
			rep.Hit("C13.reject")
			rep.AddExecs(1)
			if r.Code < 400 || r.Code > 499 {
				rep.Violate("C13.reject", "accepted-invalid-n:"+n, fmt.Sprintf("%s answered %d", u, r.Code), map[string]any{"url": u})
			}
		}
	}
}

// c13Start is the availabilityStartTime (s) of the stream c13RunHTTP walks; media time 0 is that wall-clock instant
var c13Start uint64

// c13Snr is the startNumber (snr_) of the stream c13RunHTTP walks (0 = not set)
var c13Snr int64

func c13RunHTTP(rep *vh.Report, srv *Server, a *vref.VAsset, asset string, N int, byTime bool, quick bool, chunked bool) {
	v := a.Ref
	parts := []string{fmt.Sprintf("scte35_%d", N)}
	if chunked {
		parts = append(parts, "ato_1", "chunkdur_0.5")
	}
	if byTime {
		parts = append([]string{"segtimeline_1"}, parts...)
	}
	S := c13Start
	stag := ""
	if S != 0 {
		parts = append(parts, fmt.Sprintf("start_%d", S))
		stag = ":start-off-minute"
	}
	if c13Snr != 0 {
		parts = append(parts, fmt.Sprintf("snr_%d", c13Snr))
		stag += ":snr"
	}
	prefix := vCfgPrefix(parts...)
	wrapS := uint64(1<<33) / 90000
	windows := [][2]uint64{{0, 360}, {wrapS - 180, wrapS + 180}}
	if quick {
		windows = [][2]uint64{{0, 200}, {wrapS - 70, wrapS + 70}}
	}
	// a stream that has been running since 1970 (start_0 and a present-day instant): large media times
	if S == 0 && c13Snr == 0 {
		windows = append(windows, [2]uint64{1_700_000_040 - 60, 1_700_000_040 + 80})
	} else {
		windows = windows[:1]
	}
	adDur := uint64(10)
	if N == 1 {
		adDur = 20
	}
	var ids []string
	for id := range a.Reps {
		ids = append(ids, id)
	}
	sort.Strings(ids)
	for _, w := range windows {
		n0 := int64(w[0] * v.TS / (v.LoopTicks() / uint64(len(v.Segs))))
		for n0 > 0 && v.LiveStart(n0) > w[0]*v.TS {
			n0--
		}
		carried := map[uint64]int{}
		var lo, hi uint64
		firstSeg := true
		for n := n0; v.LiveStart(n) < w[1]*v.TS; n++ {
			s, e := v.LiveStart(n), v.LiveEnd(n)
			if firstSeg {
				lo = s
				firstSeg = false
			}
			hi = e
			now := vref.TicksToMSCeil(e, v.TS) + 1 + int64(S)*1000
			for _, id := range ids {
				r := a.Reps[id]
				if r.Kind == "image" || (r.Kind == "audio" && r.FrameDur == 0) {
					continue
				}
				var name string
				switch {
				case r.Kind == "audio":
					aS := vref.AudioBoundary(s, v.TS, r.TS, r.FrameDur)
					if byTime {
						name = vref.ExpandURL(strings.ReplaceAll(r.MediaTmpl, "$Number$", "$Time$"), r.ID, r.Bandwidth, 0, aS)
					} else {
						name = vref.ExpandURL(strings.ReplaceAll(r.MediaTmpl, "$Time$", "$Number$"), r.ID, r.Bandwidth, n+c13Snr, 0)
					}
				case r.Kind == "video" || len(r.Segs) == len(v.Segs):
					rs := r.LiveStart(n)
					if byTime {
						name = vref.ExpandURL(strings.ReplaceAll(r.MediaTmpl, "$Number$", "$Time$"), r.ID, r.Bandwidth, 0, rs)
					} else {
						name = vref.ExpandURL(strings.ReplaceAll(r.MediaTmpl, "$Time$", "$Number$"), r.ID, r.Bandwidth, n+c13Snr, 0)
					}
				default:
					continue
				}
				url := fmt.Sprintf("%s/%s/%s?nowMS=%d", prefix, asset, name, now+30)
				resp := vGet(srv, url)
				rep.AddStates(1)
				rep.AddTrans(1)
				rep.AddExecs(1)
				in := map[string]any{"url": url}
				if resp.Code != 200 {
					rep.Violate("C13.http", fmt.Sprintf("status-%d:%s", resp.Code, r.Kind), fmt.Sprintf("%s answered %d %q", url, resp.Code, vTrim(resp.Body)), in)
					continue
				}
				sg, err := vref.ParseSegment(resp.Body, r.Init.Trex)
				if err != nil {
					rep.Violate("C13.http", "unparsable:"+r.Kind, fmt.Sprintf("%s: %v", url, err), in)
					continue
				}
				var scte []vref.Emsg
				for _, em := range sg.Emsgs {
					if em.Scheme == c13Scheme {
						scte = append(scte, em)
					}
				}
				if r.Kind != "video" {
					rep.Hit("C13.videoonly")
					if len(scte) > 0 {
						rep.Violate("C13.videoonly", "event-in-"+r.Kind, fmt.Sprintf("%s carries a SCTE-35 event", url), in)
					}
					continue
				}
				if r != v {
					continue // further video representations carry the same events; counted on the reference
				}
				if len(scte) > 1 {
					rep.Violate("C13.once", "two-events-in-one-segment", fmt.Sprintf("%s carries %d events", url, len(scte)), in)
				}
				for _, em := range scte {
					rep.Hit("C13.event")
					if em.Version != 1 || uint64(em.Timescale) != v.TS {
						rep.Violate("C13.event", "emsg-version-timescale", fmt.Sprintf("%s: emsg version %d timescale %d", url, em.Version, em.Timescale), in)
						continue
					}
					sp := em.PresentationTime
					if sp%v.TS != 0 {
						rep.Violate("C13.event", "splice-not-on-second", fmt.Sprintf("%s: presentation time %d/%d", url, sp, v.TS), in)
						continue
					}
					spS := sp / v.TS
					carried[spS]++
					okOff := false
					for _, o := range []uint64{10, 40, 36, 46} {
						if (spS+S)%60 == o {
							okOff = true
						}
					}
					ann := (spS - 7) * v.TS
					if S != 0 {
						okOff = true // offsets are judged for the whole window below (known finding: they follow media-time minutes)
					}
					if !okOff || ann < s || ann > e {
						rep.Violate("C13.carrier", "wrong-carrier"+stag, fmt.Sprintf("%s: segment [%d,%d]/%d carries splice at %d s", url, s, e, v.TS, spS), in)
					}
					si, err := vref.ParseSpliceInfo(em.Data)
					if err != nil {
						rep.Violate("C13.event", "splice-info-unparsable", fmt.Sprintf("%s: %v", url, err), in)
						continue
					}
					wantPTS := (spS * 90000) % (1 << 33)
					if uint64(em.ID) != spS || uint64(em.Duration) != adDur*v.TS || si.TableID != 0xFC || si.CommandType != 5 || !si.CRCOK || si.PTS != wantPTS ||
						si.Duration != adDur*90000 || !si.AutoReturn || si.EventID != em.ID {
						rep.Violate("C13.event", "inconsistent-event", fmt.Sprintf("%s: emsg id=%d dur=%d; splice_info table=%x cmd=%d crc=%v pts=%d (want %d) break_duration=%d (want %d) auto_return=%v event_id=%d",
							url, em.ID, em.Duration, si.TableID, si.CommandType, si.CRCOK, si.PTS, wantPTS, si.Duration, adDur*90000, si.AutoReturn, si.EventID), in)
					}
				}
			}
		}
		var offs []uint64
		switch N {
		case 1:
			offs = []uint64{10}
		case 2:
			offs = []uint64{10, 40}
		default:
			offs = []uint64{10, 36, 46}
		}
		if S != 0 {
			// classification for a stream that does not start on a minute: exactly the events of the wall-clock schedule
			// (what the statement says), exactly those of a schedule counted from the stream start (known finding), or neither
			want := func(shift uint64) map[uint64]bool {
				w := map[uint64]bool{}
				for m := (lo/v.TS + shift) / 60; m <= (hi/v.TS+shift)/60+1; m++ {
					for _, o := range offs {
						if m*60+o < shift+7 {
							continue
						}
						sp := m*60 + o - shift
						if ann := (sp - 7) * v.TS; sp >= 7 && ann > lo && ann <= hi {
							w[sp] = true
						}
					}
				}
				return w
			}
			same := func(w map[uint64]bool) bool {
				if len(w) != len(carried) {
					return false
				}
				for sp := range w {
					if carried[sp] != 1 {
						return false
					}
				}
				return true
			}
			rep.Hit("C13.once")
			if !same(want(S)) && same(want(0)) {
				rep.Violate("C13.once", fmt.Sprintf("offsets-counted-from-stream-start:N%d", N), fmt.Sprintf("%s scte35_%d start_%d byTime=%v: the events lie at the documented offsets of minutes counted from the stream start (%d s after a wall-clock minute), not of wall-clock minutes", asset, N, S, byTime, S%60),
					map[string]any{"asset": asset, "perMinute": N, "start": S})
				continue
			}
		}
		for m := (lo/v.TS + S) / 60; m <= (hi/v.TS+S)/60+1; m++ {
			for _, o := range offs {
				if m*60+o < S+7 {
					continue
				}
				sp := m*60 + o - S // media time of the splice at wall-clock minute m, offset o
				if sp < 7 {
					continue
				}
				ann := (sp - 7) * v.TS
				if ann <= lo || ann > hi {
					continue
				}
				rep.Hit("C13.once")
				if c := carried[sp]; c != 1 {
					kind := "missing"
					if c > 1 {
						kind = "duplicate"
					}
					rep.Violate("C13.once", fmt.Sprintf("%s-event:N%d:offset%d%s%s", kind, N, o, vIf(chunked, ":chunked", ""), stag), fmt.Sprintf("%s scte35_%d byTime=%v: splice at %d s (minute %d + %d s) is carried by %d video segments", asset, N, byTime, sp, m, o, c),
						map[string]any{"asset": asset, "perMinute": N, "splice_s": sp})
				}
			}
		}
	}
	// MPD signalling
	// ... also in combination with the other parameters that add elements to the video AdaptationSet or restructure the MPD
	for _, comb := range []string{"", "annexI_a=1", "annexI_a=1,b=2", "periods_60", "continuous_1/periods_60", "patch_60", "utc_direct", "timesubsstpp_en", "ato_1/chunkdur_0.5", "eccp_cenc", "mup_2"} {
		mn := vMPDNameFor(a, v.ID)
		if comb != "" && (asset != "testpic_2s" || chunked) {
			continue
		}
		if S != 0 {
			continue // the announcement does not depend on the start time; checked with start 0
		}
		u := fmt.Sprintf("%s/%s/%s?nowMS=100000", prefix, asset, mn)
		if comb != "" {
			u = fmt.Sprintf("%s/%s/%s/%s?nowMS=100000", prefix, comb, asset, mn)
			if strings.HasPrefix(comb, "annexI_") { // Annex I parameters must be repeated in the query string
				u += "&" + strings.ReplaceAll(strings.TrimPrefix(comb, "annexI_"), ",", "&")
			}
		}
		r := vGet(srv, u)
		rep.AddExecs(1)
		m, err := vref.ParseMPD(r.Body)
		rep.Hit("C13.mpd")
		if r.Code != 200 || err != nil {
			rep.Violate("C13.mpd", "mpd-error", fmt.Sprintf("%s: status %d", u, r.Code), map[string]any{"url": u})
			continue
		}
		for _, as := range m.Periods[0].AS {
			has := false
			for _, ie := range as.InbandEvents {
				if ie.SchemeIdUri == c13Scheme {
					has = true
				}
			}
			isVideo := false
			for _, rr := range as.Reps {
				if vr := a.Reps[rr.ID]; vr != nil && vr.Kind == "video" {
					isVideo = true
				}
			}
			if has != isVideo {
				rep.Violate("C13.mpd", fmt.Sprintf("inband-event-stream:video=%v:announced=%v%s", isVideo, has, vIf(comb != "", ":combined", "")), fmt.Sprintf("%s: AdaptationSet %s", u, as.ID), map[string]any{"url": u})
			}
		}
	}
	rep.Sample(map[string]any{"asset": asset, "perMinute": N, "byTime": byTime, "windows_s": windows})
	rep.Outcome(fmt.Sprintf("%s|%d|%v", asset, N, byTime))
}
