#!/usr/bin/env python3
"""Regenerates the two generated tables of DESIGN.md section 9 (repaired defects, seeded changes)
from known_findings.json and seeded/*/meta.json. The tables sit between marker comments."""
import json, glob, os, re
V = os.path.dirname(os.path.dirname(os.path.abspath(__file__)))
d = json.load(open(os.path.join(V, "known_findings.json")))
fx = ["| property | commit | what failed |", "|----------|--------|-------------|"]
seen = set()
for f in d["findings"]:
    if f["status"] == "fixed":
        # one row per repair: several signatures of one commit share its description
        if (f["property"], f.get("commit")) in seen:
            continue
        seen.add((f["property"], f.get("commit")))
        fx.append("| %s | %s | %s |" % (f["property"], f.get("commit", "?"), f["what"].replace("|", "/").replace("\n", " ")[:300]))
sd = ["| seed | needs | result |", "|------|-------|--------|"]
for p in sorted(glob.glob(os.path.join(V, "seeded", "C*-*"))):
    m = json.load(open(os.path.join(p, "meta.json")))
    sd.append("| %s | %s | %s |" % (os.path.basename(p), m.get("needs_to_manifest", "").replace("|", "/").replace("\n", " "), m.get("result", "").replace("|", "/").replace("\n", " ")))
s = open(os.path.join(V, "DESIGN.md")).read()
def put(s, tag, lines):
    a, b = "<!-- BEGIN %s -->" % tag, "<!-- END %s -->" % tag
    i, j = s.index(a) + len(a), s.index(b)
    return s[:i] + "\n" + "\n".join(lines) + "\n" + s[j:]
s = put(s, "FIXES", fx)
s = put(s, "SEEDS", sd)
open(os.path.join(V, "DESIGN.md"), "w").write(s)
print("fixes", len(fx) - 2, "seeds", len(sd) - 2)
