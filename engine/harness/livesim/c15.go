package app

// C15 — the representation-metadata cache never changes what is served.
// Fault enumeration: asset layouts x write mode x separate/shared metadata root x every subset of
// cache files present x every truncation / corruption of one present file; oracle: cache-server
// responses == scan-server responses, or the asset is absent -- never a different answer.

import (
	"bytes"
	"compress/gzip"
	"encoding/json"
	"fmt"
	"io"
	"os"
	"path/filepath"
	"sort"
	"strings"
	"testing"

	"github.com/Dash-Industry-Forum/livesim2/internal/vshim/vgen"
	"github.com/Dash-Industry-Forum/livesim2/internal/vshim/vh"
	"github.com/Dash-Industry-Forum/livesim2/internal/vshim/vref"
)

func c15CopyTree(src, dst string) error {
	return filepath.Walk(src, func(p string, info os.FileInfo, err error) error {
		if err != nil {
			return err
		}
		rel, _ := filepath.Rel(src, p)
		if info.IsDir() {
			return os.MkdirAll(filepath.Join(dst, rel), 0o755)
		}
		if strings.HasSuffix(p, "_data.json.gz") || strings.HasSuffix(p, "_data.json") {
			return nil
		}
		in, err := os.Open(p)
		if err != nil {
			return err
		}
		defer in.Close()
		out, err := os.Create(filepath.Join(dst, rel))
		if err != nil {
			return err
		}
		defer out.Close()
		_, err = io.Copy(out, in)
		return err
	})
}

// c15Requests builds the request alphabet of one asset from the reference.
func c15Requests(a *vref.VAsset, asset string) []string {
	var out []string
	now := int64(500_000)
	var mpds []string
	for n := range a.MPDs {
		mpds = append(mpds, n)
	}
	sort.Strings(mpds)
	for _, m := range mpds {
		for _, pfx := range []string{"", "segtimeline_1/", "segtimelinenr_1/"} {
			out = append(out, fmt.Sprintf("/livesim2/%s%s/%s?nowMS=%d", pfx, asset, m, now))
		}
	}
	var ids []string
	for id := range a.Reps {
		ids = append(ids, id)
	}
	sort.Strings(ids)
	v := a.Ref
	N := int64(len(v.Segs))
	for _, id := range ids {
		r := a.Reps[id]
		if r.InitURI != "" && r.Kind != "image" {
			out = append(out, fmt.Sprintf("/livesim2/%s/%s?nowMS=%d", asset, r.InitURI, now))
		}
		base := v.LastEnded(now, 0) - N - 1
		for _, dn := range []int64{0, 1, N - 1, N} {
			n := base + dn
			name := vref.ExpandURL(strings.ReplaceAll(r.MediaTmpl, "$Time$", "$Number$"), r.ID, r.Bandwidth, n, 0)
			out = append(out, fmt.Sprintf("/livesim2/%s/%s?nowMS=%d", asset, name, now))
			var tm uint64
			switch {
			case r.Kind == "audio" && r.FrameDur > 0:
				tm = vref.AudioBoundary(v.LiveStart(n), v.TS, r.TS, r.FrameDur)
			case r.Kind == "image":
				continue
			case len(r.Segs) == len(v.Segs):
				tm = r.LiveStart(n)
			default:
				continue
			}
			tname := vref.ExpandURL(strings.ReplaceAll(r.MediaTmpl, "$Number$", "$Time$"), r.ID, r.Bandwidth, 0, tm)
			out = append(out, fmt.Sprintf("/livesim2/segtimeline_1/%s/%s?nowMS=%d", asset, tname, now))
		}
		// data that is not stored in the cache files but rebuilt at every start: the encryption data
		if (r.Kind == "video" || r.Kind == "audio") && r.InitURI != "" {
			for _, d := range []string{"eccp_cbcs", "eccp_cenc"} {
				out = append(out, fmt.Sprintf("/livesim2/%s/%s/%s?nowMS=%d", d, asset, r.InitURI, now))
				name := vref.ExpandURL(strings.ReplaceAll(r.MediaTmpl, "$Time$", "$Number$"), r.ID, r.Bandwidth, base, 0)
				out = append(out, fmt.Sprintf("/livesim2/%s/%s/%s?nowMS=%d", d, asset, name, now))
			}
		}
	}
	return out
}

type c15Answers []vResp

func c15Ask(srv *Server, reqs []string) c15Answers {
	var out c15Answers
	for _, u := range reqs {
		out = append(out, vGet(srv, u))
	}
	return out
}

func TestVerifC15(t *testing.T) {
	rep := vh.NewReport("C15")
	defer rep.Write()
	quick := vh.Quick()
	scratch := os.Getenv("VERIF_SCRATCH")
	if scratch == "" {
		scratch = os.TempDir()
	}
	sh, _ := vh.Shard()
	work, err := os.MkdirTemp(scratch, fmt.Sprintf("c15-%d-", sh))
	if err != nil {
		t.Fatalf("scratch: %v", err)
	}
	defer os.RemoveAll(work)
	type layout struct{ src, name string }
	var layouts []layout
	for _, n := range []string{"testpic_2s", "testpic_8s", "testpic_alt_seg_dur_stl", "testpic_6s", "bbb_hevc_ac3_8s"} {
		layouts = append(layouts, layout{filepath.Join(vBundledRoot, n), n})
	}
	if g := vGenRoot(); g != "" {
		for _, n := range []string{"g_3x1500ms", "g_irregular_time", "g_single_snr5", "g_audio_one_seg", "g_trex_vs_tfhd"} {
			layouts = append(layouts, layout{filepath.Join(g, n), n})
		}
		if x := vGenExtraRoot(); x != "" {
			// a segment boundary that the sample durations and the next tfdt disagree about, before the last segment
			layouts = append(layouts, layout{filepath.Join(x, "x_shift_last_boundary"), "x_shift_last_boundary"})
			layouts = append(layouts, layout{filepath.Join(x, "x_rep_ids"), "x_rep_ids"})
		}
	}
	job := 0
	for _, l := range layouts {
		job++
		if !vh.Mine(job) {
			continue
		}
		c15Asset(t, rep, work, l.src, l.name, quick)
	}
	// (c) assets that must be left out
	if sh == 0 {
		negRoot := filepath.Join(work, "neg")
		for _, l := range vgen.NegativeLayouts() {
			if err := vgen.Generate(negRoot, filepath.Join(vBundledRoot, "testpic_2s"), l); err != nil {
				t.Fatalf("generate %s: %v", l.Name, err)
			}
		}
		// a good asset next to them so that the server starts
		_ = c15CopyTree(filepath.Join(vBundledRoot, "testpic_8s"), filepath.Join(negRoot, "testpic_8s"))
		for _, mode := range []string{"scan", "write", "read"} {
			meta := filepath.Join(work, "negmeta")
			var srv *Server
			var err error
			switch mode {
			case "scan":
				srv, err = vNewServer(negRoot, "", false)
			case "write":
				srv, err = vNewServer(negRoot, meta, true)
			default:
				srv, err = vNewServer(negRoot, meta, false)
			}
			if err != nil {
				rep.Violate("C15.c", "server-start:"+mode, err.Error(), nil)
				continue
			}
			for _, l := range vgen.NegativeLayouts() {
				rep.Hit("C15.c")
				rep.AddStates(1)
				rep.AddTrans(1)
				rep.AddExecs(1)
				_, admitted := srv.assetMgr.assets[l.Name]
				r := vGet(srv, fmt.Sprintf("/livesim2/%s/Manifest.mpd?nowMS=500000", l.Name))
				if admitted || r.Code == 200 {
					rep.Violate("C15.c", "bad-asset-served:"+l.Name+":"+mode, fmt.Sprintf("asset %s (%s mode) admitted=%v, MPD status %d", l.Name, mode, admitted, r.Code), map[string]any{"layout": l.Name})
				}
			}
		}
	}
}

func c15Asset(t *testing.T, rep *vh.Report, work, src, name string, quick bool) {
	root := filepath.Join(work, "vod_"+name)
	if err := c15CopyTree(src, filepath.Join(root, name)); err != nil {
		t.Fatalf("copy: %v", err)
	}
	a, err := vref.LoadAsset(root, name)
	if err != nil {
		t.Fatalf("reference: %v", err)
	}
	reqs := c15Requests(a, name)
	scan, err := vNewServer(root, "", false)
	if err != nil {
		t.Fatalf("scan server: %v", err)
	}
	ref := c15Ask(scan, reqs)
	ok200 := 0
	for _, r := range ref {
		if r.Code == 200 {
			ok200++
		}
	}
	if ok200 < len(ref)/2 {
		t.Fatalf("%s: only %d of %d reference requests answered 200", name, ok200, len(ref))
	}
	// (d) contiguity of the loaded tables
	contiguous := func(srv *Server, what string) {
		as, ok := srv.assetMgr.assets[name]
		if !ok {
			return
		}
		rep.Hit("C15.d")
		for id, r := range as.Reps {
			for i := 1; i < len(r.Segments); i++ {
				if r.Segments[i].StartTime != r.Segments[i-1].EndTime {
					rep.Violate("C15.d", "table-gap:"+what, fmt.Sprintf("%s rep %s: segment %d starts at %d, previous ends at %d", name, id, i, r.Segments[i].StartTime, r.Segments[i-1].EndTime), map[string]any{"asset": name})
				}
			}
		}
	}
	contiguous(scan, "scan")
	compare := func(srv *Server, what, sigKind string, in map[string]any) {
		rep.AddStates(1)
		rep.AddTrans(int64(len(reqs)))
		rep.AddExecs(int64(len(reqs)))
		rep.Hit("C15.a")
		if strings.HasPrefix(sigKind, "partial-cache") || strings.HasPrefix(sigKind, "damaged-cache") || strings.HasPrefix(sigKind, "plain-json") || strings.HasPrefix(sigKind, "gz-and-json") {
			rep.HitN("nontrivial_cases", 1) // a cache file is missing or damaged in this case; every case is distinct by construction
		}
		_, listed := srv.assetMgr.assets[name]
		got := c15Ask(srv, reqs)
		absent := !listed
		for i := range got {
			if got[i].Code != 404 {
				absent = false
			}
		}
		if absent {
			rep.Outcome("absent")
			return
		}
		for i := range got {
			if got[i].Code != ref[i].Code || got[i].CType != ref[i].CType || !bytes.Equal(got[i].Body, ref[i].Body) {
				kind := fmt.Sprintf("status-%d-vs-%d", got[i].Code, ref[i].Code)
				if got[i].Code == ref[i].Code {
					kind = "body-differs"
				}
				rep.Violate("C15.a", sigKind+":"+kind, fmt.Sprintf("%s %s: %s answered %d (%d bytes), scanning server %d (%d bytes); asset listed=%v", name, what, reqs[i], got[i].Code, len(got[i].Body), ref[i].Code, len(ref[i].Body), listed), in)
				rep.Outcome("differs")
				return
			}
		}
		rep.Outcome("same")
	}
	for _, shared := range []bool{false, true} {
		meta := filepath.Join(work, "meta_"+name)
		if shared {
			meta = root
		}
		tag := vIf(shared, "shared-root", "separate-root")
		// write mode: serves the same, writes the files; writing twice is idempotent
		w1, err := vNewServer(root, meta, true)
		if err != nil {
			rep.Violate("C15.b", "write-server:"+tag, err.Error(), nil)
			continue
		}
		compare(w1, "write mode "+tag, "write-mode:"+tag, map[string]any{"asset": name})
		files, _ := filepath.Glob(filepath.Join(meta, name, "*_data.json.gz"))
		sort.Strings(files)
		if len(files) == 0 {
			rep.Violate("C15.b", "no-cache-files:"+tag, fmt.Sprintf("%s: write mode wrote no files under %s", name, meta), nil)
			continue
		}
		orig := map[string][]byte{}
		for _, f := range files {
			orig[f], _ = os.ReadFile(f)
		}
		w2, err := vNewServer(root, meta, true)
		rep.Hit("C15.b")
		if err != nil {
			rep.Violate("C15.b", "second-write:"+tag, err.Error(), nil)
		} else {
			for _, f := range files {
				b, _ := os.ReadFile(f)
				if !bytes.Equal(b, orig[f]) {
					rep.Violate("C15.b", "write-not-idempotent:"+tag, fmt.Sprintf("%s: %s differs after the second write", name, filepath.Base(f)), nil)
				}
			}
			compare(w2, "second write "+tag, "write-mode:"+tag, map[string]any{"asset": name})
		}
		// read mode with the intact cache
		rd, err := vNewServer(root, meta, false)
		if err != nil {
			rep.Violate("C15.a", "read-server:"+tag, err.Error(), nil)
			continue
		}
		compare(rd, "intact cache "+tag, "intact-cache:"+tag, map[string]any{"asset": name})
		contiguous(rd, "cache")
		restore := func() {
			for f, b := range orig {
				_ = os.WriteFile(f, b, 0o644)
				_ = os.Remove(strings.TrimSuffix(f, ".gz"))
			}
		}
		// every subset of the cache files present
		if len(files) <= 5 {
			for mask := 0; mask < 1<<len(files); mask++ {
				restore()
				var missing []string
				for i, f := range files {
					if mask&(1<<i) == 0 {
						_ = os.Remove(f)
						missing = append(missing, filepath.Base(f))
					}
				}
				srv, err := vNewServer(root, meta, false)
				if err != nil {
					rep.Violate("C15.a", "subset-server:"+tag, err.Error(), nil)
					continue
				}
				compare(srv, fmt.Sprintf("cache subset (missing %v) %s", missing, tag), "partial-cache:"+tag, map[string]any{"asset": name, "missing": missing})
			}
		}
		// damage to one present file
		if shared && quick {
			restore()
			continue
		}
		for fi, f := range files {
			if quick && fi > 1 {
				break
			}
			data := orig[f]
			var variants []struct {
				kind string
				b    []byte
				alt  string // also write this plain file
			}
			add := func(kind string, b []byte) {
				variants = append(variants, struct {
					kind string
					b    []byte
					alt  string
				}{kind, b, ""})
			}
			step := 1
			if len(data) > 2048 || quick {
				step = 16
			}
			for cut := 0; cut < len(data); cut += step {
				add("truncated", data[:cut])
			}
			for cut := len(data) - 32; cut < len(data); cut++ {
				if cut > 0 {
					add("truncated", data[:cut])
				}
			}
			for off := 0; off < len(data); off += 16 {
				x := append([]byte{}, data...)
				x[off] ^= 0x5a
				add("byte-flipped", x)
			}
			add("garbage", []byte("{not json"))
			// well-formed JSON (gzipped where the file is) that is not a representation record
			for _, doc := range []string{"null", "[]", "{}", `"x"`, "1", "true", `{"segments":null}`, `{"id":null,"segments":[null]}`} {
				if strings.HasSuffix(f, ".gz") {
					var zb bytes.Buffer
					zw := gzip.NewWriter(&zb)
					_, _ = zw.Write([]byte(doc))
					_ = zw.Close()
					add("other-json", zb.Bytes())
				} else {
					add("other-json", []byte(doc))
				}
			}
			// the real record with a damaged segment table: no entries at all, an entry in the middle missing (the
			// table is not contiguous), an entry that ends before it starts, two entries swapped
			if plain, err := vGunzipOrPlain(f, data); err == nil {
				var rec map[string]any
				if json.Unmarshal(plain, &rec) == nil {
					if segs, ok := rec["segments"].([]any); ok && len(segs) >= 3 {
						edit := func(kind string, ns []any) {
							cp := map[string]any{}
							for k, v := range rec {
								cp[k] = v
							}
							cp["segments"] = ns
							b, _ := json.Marshal(cp)
							if strings.HasSuffix(f, ".gz") {
								var zb bytes.Buffer
								zw := gzip.NewWriter(&zb)
								_, _ = zw.Write(b)
								_ = zw.Close()
								b = zb.Bytes()
							}
							add("edited-table:"+kind, b)
						}
						edit("empty", []any{})
						edit("hole", append(append([]any{}, segs[:1]...), segs[2:]...))
						swapped := append([]any{}, segs...)
						swapped[0], swapped[1] = swapped[1], swapped[0]
						edit("swapped", swapped)
						if e0, ok := segs[1].(map[string]any); ok {
							bad := map[string]any{}
							for k, v := range e0 {
								bad[k] = v
							}
							bad["startTime"], bad["endTime"] = e0["endTime"], e0["startTime"]
							edit("end-before-start", append(append(append([]any{}, segs[:1]...), bad), segs[2:]...))
						}
					}
				}
			}
			for vi, va := range variants {
				restore()
				_ = os.WriteFile(f, va.b, 0o644)
				srv, err := func() (s *Server, err error) {
					defer func() {
						if r := recover(); r != nil {
							err = fmt.Errorf("start-up panicked: %v", r)
							rep.Violate("C15.a", "damaged-server-panic:"+va.kind, fmt.Sprintf("%s %s: the server crashed at start-up instead of scanning the asset: %v", filepath.Base(f), va.kind, r), map[string]any{"asset": name, "file": filepath.Base(f), "damage": va.kind, "variant": vi})
						}
					}()
					return vNewServer(root, meta, false)
				}()
				if err != nil && strings.HasPrefix(err.Error(), "start-up panicked") {
					continue
				}
				if err != nil {
					rep.Violate("C15.a", "damaged-server:"+tag, err.Error(), nil)
					continue
				}
				compare(srv, fmt.Sprintf("%s %s (%d of %d bytes) %s", filepath.Base(f), va.kind, len(va.b), len(data), tag), "damaged-cache:"+va.kind+":"+tag,
					map[string]any{"asset": name, "file": filepath.Base(f), "damage": va.kind, "variant": vi, "length": len(va.b)})
				if rep.OutOfBudget() {
					restore()
					return
				}
			}
			// plain .json instead of .gz, and both present
			restore()
			if plain, err := vGunzip(data); err == nil {
				pj := strings.TrimSuffix(f, ".gz")
				_ = os.Remove(f)
				_ = os.WriteFile(pj, plain, 0o644)
				if srv, err := vNewServer(root, meta, false); err == nil {
					compare(srv, "plain json "+tag, "plain-json:"+tag, map[string]any{"asset": name, "file": filepath.Base(pj)})
				}
				_ = os.WriteFile(f, data, 0o644)
				_ = os.WriteFile(pj, []byte("{}"), 0o644)
				if srv, err := vNewServer(root, meta, false); err == nil {
					compare(srv, "gz and stale plain json "+tag, "gz-and-json:"+tag, map[string]any{"asset": name})
				}
				_ = os.Remove(pj)
			}
		}
		restore()
		if shared {
			for f := range orig {
				_ = os.Remove(f)
			}
		}
	}
	rep.Sample(map[string]any{"asset": name, "requests": len(reqs)})
}

// vGunzipOrPlain returns the JSON text of a metadata file (gunzipped where the file is a .gz).
func vGunzipOrPlain(name string, data []byte) ([]byte, error) {
	if strings.HasSuffix(name, ".gz") {
		return vGunzip(data)
	}
	return data, nil
}
