package app

// C08 — no request can crash a handler or make it spin (livesim2 side).
// E3: every URL key x boundary/malformed value singly, every key pair x reduced alphabet, through
// the full router for MPD / video / audio / init / generated-subtitle / thumbnail endpoints and
// the three MPD types; segment-name shapes; /patch, /urlgen, licence POST and /api bodies.
// Each request runs under the vrt runtime (virtual time for slow/hang/chunked, loop horizon).

import (
	"context"
	"fmt"
	"net/http"
	"net/http/httptest"
	"net/url"
	"os"
	"path/filepath"
	"strings"
	"testing"

	"github.com/Dash-Industry-Forum/livesim2/internal/vshim/vh"
	"github.com/Dash-Industry-Forum/livesim2/internal/vshim/vref"
	"github.com/Dash-Industry-Forum/livesim2/internal/vshim/vrt"
	"github.com/Dash-Industry-Forum/livesim2/pkg/drm"
	"github.com/Dash-Industry-Forum/livesim2/pkg/logging"
)

type c08Key struct {
	name  string
	valid string
	typ   string // int | float | flag | str
	// values outside the documented range (must be refused with 4xx)
	badRange []string
}

var c08Keys = []c08Key{
	{"start", "10", "int", nil}, {"ast", "10", "int", nil}, {"stop", "200", "int", nil}, {"startrel", "-20", "int", nil}, {"stoprel", "20", "int", nil},
	{"dur", "60", "int", nil}, {"timeoffset", "1.5", "float", nil}, {"init", "10", "int", nil}, {"tsbd", "30", "int", []string{"-1", "172801", "99999999"}},
	{"mup", "2", "int", []string{"0", "-1"}}, {"tfdt", "32", "flag", nil}, {"cont", "1", "flag", nil}, {"periods", "60", "int", nil}, {"xlink", "60", "int", nil},
	{"etp", "60", "int", nil}, {"etpDuration", "10", "int", nil}, {"insertad", "1", "flag", nil}, {"continuous", "1", "flag", nil}, {"segtimeline", "1", "flag", nil},
	{"segtimelinenr", "1", "flag", nil}, {"peroff", "1", "int", nil}, {"scte35", "2", "int", []string{"0", "4", "-1"}}, {"utc", "direct-head", "str", nil},
	{"snr", "5", "int", []string{"-1"}}, {"ato", "1.0", "float", []string{"-1"}}, {"ltgt", "2000", "int", nil}, {"spd", "10", "int", nil}, {"sidx", "1", "flag", nil},
	{"segtimelineloss", "1", "flag", nil}, {"chunkdur", "0.5", "float", []string{"-1"}}, {"timesubsstpp", "en,sv", "str", nil}, {"timesubswvtt", "en", "str", nil},
	{"timesubsdur", "800", "int", nil}, {"timesubsreg", "1", "int", []string{"2", "-1"}}, {"statuscode", "[{cycle:30,rsq:0,code:404,rep:video}]", "str", nil},
	{"traffic", "u20d10", "str", nil}, {"drm", "EZDRM-1-key-cbcs-test", "str", nil}, {"eccp", "cenc", "str", nil}, {"patch", "60", "int", nil}, {"annexI", "a=1,b=2", "str", nil},
	{"modulo", "10", "int", nil},
}

// values that do not parse, and values that parse but are far out: 2^60 and the largest int64 overflow products
// computed downstream (cycle x timescale, seconds x 1000)
var c08Values = []string{"", "0", "-1", "1", "2", "99999999999999999999", "1152921504606846976", "9223372036854775807", "abc", "1.5", "inf", "-inf", "NaN", ",", "[{", "u", "d0"}
var c08PairValues = []string{"0", "-1", "99999999999999999999", "1152921504606846976", "abc"}

func c08Malformed(k c08Key, v string) bool {
	switch k.typ {
	case "int":
		switch v {
		case "", "99999999999999999999", "abc", "1.5", "inf", "-inf", "NaN", ",", "[{", "u", "d0":
			return true
		}
	case "float":
		switch v {
		case "", "abc", ",", "[{", "u", "d0":
			return true
		}
	}
	for _, b := range k.badRange {
		if v == b {
			return true
		}
	}
	return false
}

type c08Case struct {
	method, url string
	body        []byte
	want4xx     bool
	want404     bool
	label       string // coarse class for the outcome statistics
	handler     string // which handler to replay on for the panic site
	steps       int    // api cases: after the call, this many step calls (each followed by quiescence) so that the session goroutine does its work
	setup       string // api cases: "" = no session, "live" = a running step-mode session with id 1, "ended" = that session deleted
}

func (s *Server) c08Handler(name string) http.HandlerFunc {
	switch name {
	case "patch":
		return s.patchHandlerFunc
	case "urlgen":
		return s.urlGenHandlerFunc
	case "laurl":
		return s.laURLHandlerFunc
	case "router":
		return s.Router.ServeHTTP
	}
	return s.livesimHandlerFunc
}

func TestVerifC08(t *testing.T) {
	rep := vh.NewReport("C08")
	defer rep.Write()
	quick := vh.Quick()
	srv, err := vNewServer(vBundledRoot, "", false)
	if err != nil {
		t.Fatalf("server: %v", err)
	}
	if dc, err := drm.ReadDrmConfig("../../../pkg/drm/testdata/drm_config_test.json"); err == nil {
		srv.Cfg.DrmCfg = dc
	} else {
		rep.Note("no DRM config loaded: %v", err)
	}
	a, err := vAsset(vBundledRoot, "testpic_2s")
	if err != nil {
		t.Fatalf("asset: %v", err)
	}
	const now = 100000
	n := int64(40)
	v, au := a.Reps["V300"], a.Reps["A48"]
	vTime := v.LiveStart(n)
	aTime := vref.AudioBoundary(vTime, v.TS, au.TS, au.FrameDur)
	endpoints := func(tl bool, snr int64) []string {
		if tl {
			return []string{"Manifest.mpd", fmt.Sprintf("V300/%d.m4s", vTime), fmt.Sprintf("A48/%d.m4s", aTime), "V300/init.mp4",
				fmt.Sprintf("timestpp-en/%d.m4s", n*2000), fmt.Sprintf("thumbs/%d.jpg", n+snr), "Manifest_thumbs.mpd", "timestpp-en/init.mp4"}
		}
		return []string{"Manifest.mpd", fmt.Sprintf("V300/%d.m4s", n+snr), fmt.Sprintf("A48/%d.m4s", n+snr), "V300/init.mp4",
			fmt.Sprintf("timestpp-en/%d.m4s", n+snr), fmt.Sprintf("thumbs/%d.jpg", n+snr), "Manifest_thumbs.mpd", "timestpp-en/init.mp4"}
	}
	var cases []c08Case
	addCfg := func(parts []string, want4xx bool, label string) {
		for _, mode := range []string{"", "segtimeline_1", "segtimelinenr_1"} {
			p := append([]string{}, parts...)
			has := false
			for _, x := range p {
				if strings.HasPrefix(x, "segtimeline") {
					has = true
				}
			}
			if mode != "" && !has {
				p = append([]string{mode}, p...)
			} else if mode != "" {
				continue
			}
			tl := false
			for _, x := range p {
				if strings.HasPrefix(x, "segtimeline_") {
					tl = true
				}
			}
			eps := endpoints(tl, 0)
			nows := []int64{now}
			for _, x := range p {
				if strings.HasPrefix(x, "traffic_") { // traffic patterns are evaluated for requests below a BaseURL only
					eps = append(eps, "bu0/"+eps[1], "bu1/"+eps[1], "bu0/V300/init.mp4")
				}
				if strings.HasPrefix(x, "start") || strings.HasPrefix(x, "stop") { // also an instant after both
					nows = []int64{now, 8_000_000}
				}
			}
			for _, ep := range eps {
				for _, t := range nows {
					cases = append(cases, c08Case{method: "GET", url: fmt.Sprintf("%s/testpic_2s/%s?nowMS=%d", vCfgPrefix(p...), ep, t), want4xx: want4xx, label: label})
				}
			}
		}
	}
	esc := func(k, v string) string { return url.PathEscape(k + "_" + v) }
	// (i) single keys
	for _, k := range c08Keys {
		for _, val := range append(append([]string{k.valid}, c08Values...), k.badRange...) {
			parts := []string{esc(k.name, val)}
			if k.name == "timesubsdur" || k.name == "timesubsreg" {
				parts = append(parts, "timesubsstpp_en")
			}
			if strings.HasPrefix(k.name, "timesubs") == false {
				parts = append(parts, "timesubsstpp_en")
			}
			addCfg(parts, c08Malformed(k, val), "single")
		}
	}
	// key pairs
	stride := 1
	if quick {
		stride = 3
	}
	pi := 0
	for i := range c08Keys {
		for j := i + 1; j < len(c08Keys); j++ {
			for _, v1 := range c08PairValues {
				for _, v2 := range c08PairValues {
					pi++
					if pi%stride != 0 {
						continue
					}
					k1, k2 := c08Keys[i], c08Keys[j]
					addCfg([]string{esc(k1.name, v1), esc(k2.name, v2), "timesubsstpp_en"}, c08Malformed(k1, v1) || c08Malformed(k2, v2), "pair")
				}
			}
		}
	}
	// hazardous combinations named in the design
	for _, parts := range [][]string{
		{"chunkdur_0.5", "ato_2"}, {"chunkdur_0.5", "ato_2.5"}, {"chunkdur_0.5", "ato_1.999"}, {"chunkdur_0.5", "ato_inf"}, {"chunkdur_0", "ato_1"},
		{"chunkdur_0.5", "ato_1", "eccp_cenc"}, {"chunkdur_0.5", "ato_1", "drm_nope"}, {"periods_3600"}, {"periods_7200"}, {"periods_0"}, {"periods_-60"},
		{"periods_60", "continuous_1"}, {"timesubsdur_0", "timesubsstpp_en"}, {"timesubsdur_-5", "timesubsstpp_en"}, {"timesubsdur_100000", "timesubsstpp_en"},
		{"start_7200", "stop_3600"}, {"start_7200", "stop_3600", "periods_60"}, {"start_7200", "stop_3600", "segtimeline_1"}, {"startrel_-10", "stoprel_-20"}, {"stop_0"},
		{"traffic_u5d18446744073709551611"}, {"traffic_u9223372036854775807"}, {"traffic_u4611686018427387904d4611686018427387904"}, {"traffic_u1d1s1h18446744073709551613"},
		{"statuscode_[{cycle:1152921504606846976,rsq:0,code:404}]"}, {"statuscode_[{cycle:9223372036854775807,rsq:0,code:404}]"}, {"statuscode_[{cycle:30,rsq:9223372036854775807,code:404}]"},
		{"traffic_u0"}, {"traffic_u"}, {"traffic_u10,"}, {"traffic_,"}, {"traffic_u10,d5"}, {"statuscode_[{cycle:1,rsq:0,code:404}]"}, {"statuscode_[{}]"}, {"statuscode_[{cycle:30}]"},
		{"statuscode_[{cycle:30,rsq:99,code:404,rep:}]"}, {"statuscode_[{rsq:0,code:404}]"}, {"statuscode_[{code:404}]"}, {"statuscode_[{cycle:30,rsq:0,code:404},{rsq:1,code:503}]"}, {"statuscode_[{cycle:30,rsq:0,code:404},{cycle:0,rsq:1,code:503}]"}, {"annexI_foo"}, {"annexI_="}, {"annexI_a=b=c"}, {"stoprel_abc"}, {"stoprel_"}, {"startrel_"}, {"stop_abc"},
		{"drm_unknown"}, {"eccp_xyz"}, {"eccp_"}, {"patch_0"}, {"patch_-1"}, {"scte35_1"}, {"scte35_3"}, {"snr_-1"}, {"snr_4294967295"}, {"snr_4294967296"},
		{"start_-1"}, {"start_99999999999"}, {"timeoffset_1e308"}, {"timeoffset_-1e308"}, {"ato_-1"}, {"chunkdur_0.5", "ato_-1"}, {"chunkdur_1", "ato_-2147481.648"}, {"chunkdur_1", "ato_-4294965.296"}, {"chunkdur_1", "ato_-1e12"}, {"ato_1e308"}, {"ato_NaN"}, {"ltgt_-1"}, {"tsbd_0"},
	} {
		addCfg(parts, false, "hazard")
	}
	// (i-a) Annex I query parameters: every configured key/value list against query strings that carry the keys
	// more often, less often, in another order, without a value, or not at all
	for _, ax := range []string{"a=1", "a=1,b=2", "a=1,a=3", "a=1,b=3,a=3", "a=1,a=1", "a=,b=2", "a=1,a=2,a=3"} {
		for _, q := range []string{"", "a=1", "a=3", "a=1&a=3", "a=3&a=1", "a=1&a=3&a=5", "a=1&a=2&a=3&a=4", "b=2", "a=1&b=2", "b=3&a=1", "b=3&a=1&a=3", "a=", "a", "a=1&a=1", "A=1", "a=1&c=7"} {
			for _, ep := range []string{"Manifest.mpd", "V300/40.m4s", "A48/40.m4s", "V300/init.mp4"} {
				for _, pre := range [][]string{{}, {"segtimeline_1"}} {
					u := fmt.Sprintf("%s/testpic_2s/%s?nowMS=%d", vCfgPrefix(append(append([]string{}, pre...), "annexI_"+ax)...), ep, now)
					if q != "" {
						u += "&" + q
					}
					cases = append(cases, c08Case{method: "GET", url: u, label: "annexI-query"})
				}
			}
		}
	}
	// (i-b) configuration-like parts after the asset path: they are not parsed as configuration, but
	// code that scans the URL parts (Location, patch base URL) still sees them
	for _, pre := range [][]string{{}, {"startrel_-10"}, {"stoprel_20"}, {"startrel_-10", "stoprel_20"}, {"patch_60", "segtimeline_1"}, {"periods_60"}} {
		for _, k := range c08Keys {
			for _, ep := range []string{"Manifest.mpd", "V300/40.m4s", "V300/init.mp4"} {
				for _, q := range []string{fmt.Sprintf("?nowMS=%d", now), ""} {
					cases = append(cases, c08Case{method: "GET", url: fmt.Sprintf("%s/testpic_2s/%s/%s%s", vCfgPrefix(pre...), esc(k.name, k.valid), ep, q), label: "misplaced"})
				}
			}
		}
	}
	// (ii) segment name shapes
	for _, mode := range []string{"", "segtimeline_1", "segtimelinenr_1"} {
		for _, rp := range []string{"V300", "A48", "imsc1_txt_sv", "thumbs", "timestpp-en", "timewvtt-en", "timestpp-xx", "timestpp", "timestpp-", "nope"} {
			for _, name := range []string{"6", "0", "4294967295", "4294967296", "4294967297", "9223372036854775807", "9223372036854775808", "-1", "abc", "1.5", "", "00000000000000000000000000000000000000001",
				"12345", "96257", "init.mp4", "init", "40.m4s.m4s"} {
				for _, ext := range []string{".m4s", ".mp4", ".jpg", ".cmfv", ".xyz", ""} {
					if quick && ext != ".m4s" && ext != ".jpg" && name != "6" {
						continue
					}
					for _, cfgp := range [][]string{{"snr_7", "timesubsstpp_en", "timesubswvtt_en"}, {"timesubsstpp_en"}} {
						p := append([]string{}, cfgp...)
						if mode != "" {
							p = append([]string{mode}, p...)
						}
						cases = append(cases, c08Case{method: "GET", url: fmt.Sprintf("%s/testpic_2s/%s/%s%s?nowMS=%d", vCfgPrefix(p...), rp, url.PathEscape(name), ext, now), label: "segname"})
					}
				}
			}
		}
		// BaseURL indices with traffic patterns
		for _, bu := range []string{"bu0", "bu1", "bu5", "bu-1", "bu99999999999999999999", "buX", "bu", "bu0/bu0"} {
			for _, tr := range []string{"traffic_u10", "traffic_u10,d5", "traffic_s1", "traffic_h1"} {
				p := []string{tr}
				if mode != "" {
					p = append([]string{mode}, p...)
				}
				cases = append(cases, c08Case{method: "GET", url: fmt.Sprintf("%s/testpic_2s/%s/V300/%d.m4s?nowMS=%d", vCfgPrefix(p...), bu, n, now), label: "baseurl"})
			}
		}
	}
	for _, mode := range []string{"", "segtimeline_1"} {
		for _, tr := range []string{"traffic_,", "traffic_u10,", "traffic_,u10", "traffic_u0", "traffic_u"} {
			for _, bu := range []string{"bu0", "bu1"} {
				p := []string{url.PathEscape(tr)}
				if mode != "" {
					p = append([]string{mode}, p...)
				}
				cases = append(cases, c08Case{method: "GET", url: fmt.Sprintf("%s/testpic_2s/%s/V300/%d.m4s?nowMS=%d", vCfgPrefix(p...), bu, n, now), label: "baseurl"})
				cases = append(cases, c08Case{method: "GET", url: fmt.Sprintf("%s/testpic_2s/Manifest.mpd?nowMS=%d", vCfgPrefix(p...), now), label: "baseurl"})
			}
		}
		// DRM on assets that cannot be encrypted (HEVC / AC-3), unknown DRM names, every endpoint kind
		for _, d := range []string{"eccp_cenc", "eccp_cbcs", "drm_EZDRM-1-key-cbcs-test", "drm_nope", "eccp_nope", "drm_"} {
			for _, ep := range []string{"manifest.mpd", "video_init.mp4", "audio_init.mp4", "video_12.m4s", "audio_12.m4s", "video_init.mp4", "video_1228800.m4s", "audio_1152000.m4s"} {
				for _, extra := range [][]string{{}, {"chunkdur_0.5", "ato_1"}} {
					p := append([]string{d}, extra...)
					if mode != "" {
						p = append([]string{mode}, p...)
					}
					cases = append(cases, c08Case{method: "GET", url: fmt.Sprintf("%s/bbb_hevc_ac3_8s/%s?nowMS=%d", vCfgPrefix(p...), ep, now), label: "drm"})
				}
			}
			for _, ep := range []string{"Manifest.mpd", "V300/init.mp4", "A48/init.mp4", fmt.Sprintf("V300/%d.m4s", n), fmt.Sprintf("A48/%d.m4s", n), fmt.Sprintf("imsc1_txt_sv/%d.m4s", n), "Manifest_imsc1.mpd", fmt.Sprintf("thumbs/%d.jpg", n)} {
				p := []string{d}
				cases = append(cases, c08Case{method: "GET", url: fmt.Sprintf("%s/testpic_2s/%s?nowMS=%d", vCfgPrefix(p...), ep, now), label: "drm"})
			}
		}
	}
	// unknown assets / query strings / methods
	for _, u := range []string{"/livesim2/", "/livesim2", "/livesim2/x", "/livesim2/nope/Manifest.mpd", "/livesim2/testpic_2s", "/livesim2/testpic_2s/", "/livesim2/testpic_2s/Manifest.mpd?nowMS=abc",
		"/livesim2/testpic_2s/Manifest.mpd?nowMS=-5", "/livesim2/testpic_2s/Manifest.mpd?nowMS=99999999999999999999", "/livesim2/testpic_2s/Manifest.mpd?nowDate=abc", "/livesim2/testpic_2s/Manifest.mpd?nowDate=2023-01-01T00:00:00Z",
		"/livesim2/testpic_2s/Manifest.mpd?publishTime=x", "/livesim2/testpic_2s/V300/40.m4s?nowMS=", "/livesim2/%zz/Manifest.mpd", "/livesim2/testpic_2s/Manifest.mpd%00", "/livesim2/start_10", "/livesim2/start_10/",
		"/livesim2/tsbd_1/tsbd_2/testpic_2s/Manifest.mpd?nowMS=100000", "/vod/testpic_2s/Manifest.mpd", "/vod/nope", "/vod/../x", "/assets", "/config", "/version", "/healthz", "/reqcount", "/metrics", "/", "/favicon.ico",
		"/static/nope", "/urlgen", "/urlgen/", "/urlgen/mpds", "/urlgen/mpds?asset=testpic_2s", "/urlgen/mpds?asset=nope", "/urlgen/drms", "/urlgen/drms?asset=testpic_2s", "/urlgen/drms?asset=nope&drm=x", "/urlgen/create", "/urlgen/nope"} {
		h := "router"
		if strings.HasPrefix(u, "/urlgen") {
			h = "urlgen"
		} else if strings.HasPrefix(u, "/livesim2") {
			h = "livesim"
		}
		cases = append(cases, c08Case{method: "GET", url: u, label: "misc", handler: h})
	}
	for _, m := range []string{"HEAD", "OPTIONS", "POST", "PUT", "DELETE", "PATCH"} {
		for _, u := range []string{"/livesim2/testpic_2s/Manifest.mpd?nowMS=100000", "/livesim2/testpic_2s/V300/40.m4s?nowMS=100000", "/patch/livesim2/x.mpp", "/api/cmaf-ingests", "/"} {
			cases = append(cases, c08Case{method: m, url: u, label: "method", handler: "router"})
		}
	}
	// (iii) /urlgen/create with each query key x V
	for _, qk := range []string{"asset", "mpd", "stl", "tsbd", "ato", "mup", "spd", "snr", "utc", "periods", "continuous", "chunkdur", "ltgt", "timesubsstpp", "timesubswvtt", "timesubsdur", "timesubsreg", "scte35",
		"statuscode", "traffic", "drm", "eccp", "patch", "annexI", "start", "stop", "startrel", "stoprel", "timeoffset"} {
		for _, val := range append([]string{"1", "testpic_2s", "Manifest.mpd", "tlt", "nr"}, c08Values...) {
			cases = append(cases, c08Case{method: "GET", url: fmt.Sprintf("/urlgen/create?asset=testpic_2s&mpd=Manifest.mpd&%s=%s", qk, url.QueryEscape(val)), label: "urlgen", handler: "urlgen"})
			cases = append(cases, c08Case{method: "GET", url: fmt.Sprintf("/urlgen/create?%s=%s", qk, url.QueryEscape(val)), label: "urlgen", handler: "urlgen"})
		}
	}
	// /patch
	for _, pt := range []string{"", "abc", "1970-01-01T00:00:00Z", "1970-01-01T00:01:30Z", "1970-01-01T00:01:38Z", "1970-01-01T00:01:40Z", "2070-01-01T00:00:00Z", "1970-01-01T00:01:30", "0", "-1"} {
		for _, p := range [][]string{{"patch_60", "segtimeline_1"}, {"patch_60", "segtimelinenr_1"}, {"patch_60"}, {"segtimeline_1"}, {"patch_60", "segtimeline_1", "periods_60"}, {"patch_abc", "segtimeline_1"},
			{"patch_60", "chunkdur_0.5", "ato_1.5"}, {"chunkdur_0.5", "ato_1.5"}, {"patch_60", "segtimeline_1", "timesubsstpp_en"}, {"patch_60", "eccp_cenc"}} {
			for _, ep := range []string{"Manifest.mpp", "Manifest.mpd", "nope.mpp", "V300/40.m4s"} {
				q := "nowMS=100000"
				if pt != "" {
					q = "publishTime=" + url.QueryEscape(pt) + "&" + q
				}
				cases = append(cases, c08Case{method: "GET", url: fmt.Sprintf("/patch%s/testpic_2s/%s?%s", vCfgPrefix(p...), ep, q), label: "patch", handler: "patch"})
				cases = append(cases, c08Case{method: "GET", url: fmt.Sprintf("/patch%s/nope/%s?%s", vCfgPrefix(p...), ep, q), label: "patch", handler: "patch"})
			}
		}
	}
	// licence POST bodies
	for _, body := range []string{"", "{", "null", "[]", "{}", `{"kids":[]}`, `{"kids":[""],"type":"temporary"}`, `{"kids":["nrQFDeRLSAKTLifXUIPiZg"],"type":"temporary"}`, `{"kids":["AAAA"]}`, `{"kids":["!!!!"]}`,
		`{"kids":["nrQFDeRLSAKTLifXUIPiZgAAAAAAAAAAAA"]}`, `{"kids":[1,2]}`, `{"kids":"x"}`, `{"kids":["MDAwMDAwMDAwMDAwMDAwMA"]}`, `{"kids":["AAECAwQFBgcICQoLDA0ODw"]}`} {
		for _, u := range []string{"/livesim2/eccp_cenc/testpic_2s/eccp.json", "/livesim2/testpic_2s/eccp.json", "/livesim2/eccp.json", "/eccp.json", "/livesim2/eccp_cenc/testpic_2s/Manifest.mpd", "/x"} {
			cases = append(cases, c08Case{method: "POST", url: u, body: []byte(body), label: "laurl", handler: "laurl"})
		}
	}
	// /api bodies and ids
	for _, body := range []string{"", "{", "null", "{}", `{"livesimURL":""}`, `{"livesimURL":"x"}`, `{"livesimURL":"/livesim2/nope/Manifest.mpd","destRoot":"http://x"}`,
		`{"livesimURL":"http://h/livesim2/testpic_2s/Manifest.mpd","destRoot":"","duration":-5}`, `{"livesimURL":"http://h/livesim2/testpic_2s/V300/1.m4s","destRoot":"http://x","testNowMS":-1}`,
		`{"livesimURL":"%zz","destRoot":"http://x"}`, `{"livesimURL":"/livesim2/testpic 2s/Manifest.mpd","destRoot":"http://x"}`, `{"livesimURL":" ","destRoot":"http://x"}`,
		`{"livesimURL":"/livesim2/testpic_2s/Manifest.mpd\n","destRoot":"http://x"}`, `{"livesimURL":"/livesim2/testpic_2s/Manifest.mpd\r\nX: y","destRoot":"http://x"}`, `{"livesimURL":"/livesim2/\u0000/Manifest.mpd","destRoot":"http://x"}`,
		`{"livesimURL":"/livesim2/testpic_2s/Manifest.mpd?a b","destRoot":"http://x"}`, `{"livesimURL":"/livesim2/testpic_2s/Manifest.mpd","destRoot":"http://x y"}`, `{"livesimURL":"/livesim2/testpic_2s/Manifest.mpd","destRoot":"://"}`, `{"livesimURL":"http://h/livesim2/tsbd_abc/testpic_2s/Manifest.mpd","destRoot":"http://x","testNowMS":100000}`} {
		cases = append(cases, c08Case{method: "POST", url: "/api/cmaf-ingests", body: []byte(body), label: "api", handler: "router"})
		if strings.HasSuffix(body, "}") && len(body) > 2 {
			// the schema requires destRoot and destName; without them the request never reaches the handler
			full := body[:len(body)-1] + `,"destName":"d"}`
			if !strings.Contains(body, "destRoot") {
				full = body[:len(body)-1] + `,"destName":"d","destRoot":"http://receiver.invalid/up"}`
			}
			cases = append(cases, c08Case{method: "POST", url: "/api/cmaf-ingests", body: []byte(full), label: "api", handler: "router"})
		}
	}
	// a session for every kind of configuration the livesim2 URL can carry: what the session goroutine does with it
	// (the request log of C16 judges what is sent; here only: no crash, no hang)
	for _, cfgp := range []string{"", "segtimeline_1", "segtimelinenr_1", "periods_60", "statuscode_[{cycle:30,rsq:0,code:404}]", "statuscode_[{cycle:4,rsq:1,code:503,rep:V300}]",
		"traffic_u20,d10", "ato_1/chunkdur_1000", "ato_1/chunkdur_1000/timesubsstpp_en", "timesubswvtt_en,sv", "scte35_2", "eccp_cenc", "eccp_cbcs", "patch_60/segtimeline_1",
		"annexI_a=1", "stop_104", "stoprel_-10", "startrel_-20", "start_90", "snr_7", "tsbd_4", "timeoffset_2.5", "ltgt_1000", "mup_1", "utc_direct-ntp"} {
		for _, dur := range []string{"", `,"duration":4`} {
			u := "/livesim2/testpic_2s/Manifest.mpd"
			if cfgp != "" {
				u = "/livesim2/" + cfgp + "/testpic_2s/Manifest.mpd"
			}
			body := fmt.Sprintf(`{"livesimURL":%q,"destRoot":"http://receiver.test/up","destName":"c08cfg","testNowMS":100000%s}`, u, dur)
			cases = append(cases, c08Case{method: "POST", url: "/api/cmaf-ingests", body: []byte(body), label: "api", handler: "router", steps: 3})
		}
	}
	for _, id := range []string{"0", "1", "-1", "abc", "99999999999999999999", "1.5", ""} {
		for _, suffix := range []string{"", "/step"} {
			for _, m := range []string{"GET", "DELETE", "POST"} {
				for _, setup := range []string{"", "live", "ended"} {
					cases = append(cases, c08Case{method: m, url: "/api/cmaf-ingests/" + id + suffix, label: "api", handler: "router", setup: setup})
				}
			}
		}
	}

	rep.Extra["cases_total"] = len(cases)
	srvNoDRM, err := vNewServer(vBundledRoot, "", false)
	if err != nil {
		t.Fatalf("server: %v", err)
	}
	for ci, c := range cases {
		if !vh.Mine(ci) {
			continue
		}
		if rep.OutOfBudget() {
			break
		}
		c08Run(rep, srv, c)
		if c.label == "urlgen" || c.label == "drm" || c.label == "misc" || c.label == "laurl" {
			c2 := c
			c2.label += "-nodrmcfg"
			c08Run(rep, srvNoDRM, c2)
		}
	}

	// a server with the request limiter switched on: header values that name the client
	if sh, _ := vh.Shard(); sh == 0 {
		lcfg := ServerConfig{VodRoot: vBundledRoot, TimeoutS: 0, LogFormat: logging.LogDiscard, MaxRequests: 1000, ReqLimitInt: 3600, WhiteListBlocks: "10.0.0.0/8"}
		if lsrv, err := SetupServer(context.Background(), &lcfg); err != nil {
			rep.Note("server with request limiter not started: %v", err)
		} else {
			for _, xff := range []string{"", " ", ",", ", 10.0.0.7", " , a, b", "1.2.3.4", "1.2.3.4, 10.0.0.1", "1.2.3.4:80", "[::1]:80", "[::1]", "::1", "unknown", "a,b", "[", "]:", ":", "::", ":80", "1.2.3.4:", strings.Repeat("1", 5000), "10.0.0.7,", "\t"} {
				for _, remote := range []string{"9.9.9.9:1000", "[2001:db8::1]:1000", "9.9.9.9", "", ":", "nonsense:1", "[::1"} {
					for _, u := range []string{"/livesim2/testpic_2s/Manifest.mpd?nowMS=100000", "/livesim2/testpic_2s/V300/40.m4s?nowMS=100000", "/reqcount", "/vod/testpic_2s/Manifest.mpd"} {
						req := httptest.NewRequest("GET", u, nil)
						req.RemoteAddr = remote
						if xff != "" {
							req.Header["X-Forwarded-For"] = []string{xff}
						}
						w := httptest.NewRecorder()
						lsrv.Router.ServeHTTP(w, req)
						rep.AddStates(1)
						rep.AddExecs(1)
						rep.Hit("C08.a")
						if w.Code == 500 && w.Body.Len() == 0 { // chi's Recoverer
							rep.Violate("C08.a", "panic:limiter:client-address", fmt.Sprintf("GET %s with X-Forwarded-For %q from %q: the handler crashed (empty 500)", u, xff, remote), map[string]any{"url": u, "x-forwarded-for": xff, "remote": remote})
						}
					}
				}
			}
		}
	}

	// asset directories with unusual but legal names (a media or MPD extension, a space, a configuration-like name)
	if sh, _ := vh.Shard(); sh == 0 {
		oroot, err := os.MkdirTemp(os.Getenv("VERIF_SCRATCH"), "c08names")
		if err != nil {
			t.Fatalf("scratch: %v", err)
		}
		defer os.RemoveAll(oroot)
		names := []string{"clip.mp4", "dir.mpd", "x.m4s", "sp ace", "tsbd_5", "V300", "Manifest.mpd", "a.jpg"}
		for _, nm := range names {
			if err := os.CopyFS(filepath.Join(oroot, nm), os.DirFS(filepath.Join(vBundledRoot, "testpic_2s"))); err != nil {
				t.Fatalf("copy: %v", err)
			}
		}
		osrv, err := vNewServer(oroot, "", false)
		if err != nil {
			rep.Violate("C08.a", "startup-fails:odd-asset-names", fmt.Sprintf("server on a VoD root with asset directories %q does not start: %v", names, err), nil)
		} else {
			for _, nm := range names {
				for _, pre := range []string{"/livesim2", "/livesim2/segtimeline_1", "/livesim2/traffic_u10", "/vod", "/patch/livesim2/patch_60/segtimeline_1"} {
					for _, ep := range []string{"", "/", "/Manifest.mpd", "/V300/init.mp4", "/V300/40.m4s", "/A48/40.m4s", "/thumbs/40.jpg", "/" + nm, "/bu0/V300/40.m4s"} {
						u := fmt.Sprintf("%s/%s%s?nowMS=%d", pre, url.PathEscape(nm), ep, now)
						if strings.HasPrefix(pre, "/patch") {
							u += "&publishTime=1970-01-01T00:01:30Z"
						}
						c08Run(rep, osrv, c08Case{method: "GET", url: u, label: "odd-asset-name", handler: "livesim"})
					}
				}
			}
		}
	}
}

func c08Run(rep *vh.Report, srv *Server, c c08Case) {
	var resp vResp
	opts := vrt.RunOpts{LoopHorizon: 3_000_000, WatchdogS: 60, StartNS: 100_000 * 1_000_000}
	if c.label == "api" {
		// API calls start and talk to session goroutines: they run under the scheduler with the
		// scripted receiver of C16, and the execution ends with the call (a call that never
		// returns is reported as blocked for ever, not waited for)
		opts.AllowBlockedDaemons, opts.EndWithMain = true, true
		http.DefaultClient.Transport = c16RT{}
		c16Cur = &c16Recv{}
	}
	x := vrt.Run(nil, opts, func(s *vrt.Sched) {
		if c.label == "api" {
			// every API case starts from a manager of its own (sessions of earlier executions are gone with their goroutines)
			srv.cmafMgr = NewCmafIngesterMgr(srv)
			srv.cmafMgr.Start()
			if c.setup != "" {
				vDoCT(srv, "POST", "/api/cmaf-ingests", []byte(`{"livesimURL":"/livesim2/testpic_2s/Manifest.mpd","destRoot":"http://receiver.test/up","destName":"c08","testNowMS":100000}`))
				s.Settle()
				if c.setup == "ended" {
					vDoCT(srv, "DELETE", "/api/cmaf-ingests/1", nil)
					s.Settle()
				}
			}
		}
		resp = vDoCT(srv, c.method, c.url, c.body)
		if c.label == "api" {
			s.Settle()
			for i := 0; i < c.steps && resp.Code/100 == 2; i++ {
				// from a daemon client: a step that never returns must not hang the case
				vrt.Go(func() { vDoCT(srv, "GET", "/api/cmaf-ingests/1/step", nil) })
				s.Sleep(12_000 * 1_000_000)
				s.Settle()
			}
		}
	})
	rep.AddStates(1)
	rep.AddTrans(1)
	rep.AddExecs(1)
	rep.Hit("C08.a")
	rep.Hit("C08.b")
	rep.Outcome(fmt.Sprintf("%s:%d", c.label, resp.Code))
	in := map[string]any{"method": c.method, "url": c.url, "body": string(c.body)}
	for _, f := range x.Fails {
		switch {
		case f.Sig == "livelock" || f.Sig == "hang":
			rep.Violate("C08.b", "hang:"+c.label+":"+c08Shape(c.url), fmt.Sprintf("%s %s: %s", c.method, c.url, f.Msg), in)
		case f.Sig == "deadlock":
			rep.Violate("C08.b", "blocked-forever:"+c.label+":"+c.setup, fmt.Sprintf("%s %s (session %q): %s", c.method, c.url, c.setup, f.Msg), in)
		case strings.HasPrefix(f.Sig, "panic:"):
			rep.Violate("C08.a", f.Sig, fmt.Sprintf("%s %s: panic outside the recovery middleware: %s", c.method, c.url, f.Msg), in)
		}
	}
	if x.Hung {
		return
	}
	if resp.vCrashed() {
		var site, val string
		if c.label == "api" {
			vrt.Run(nil, opts, func(s *vrt.Sched) { site, val = vPanicSite(srv.c08Handler(c.handler), c.method, c.url, c.body) })
		} else {
			site, val = vPanicSite(srv.c08Handler(c.handler), c.method, c.url, c.body)
		}
		if site == "" {
			site = "not-reproduced-on-handler"
		}
		rep.Violate("C08.a", "panic:"+site+":"+c08PanicClass(val), fmt.Sprintf("%s %s: %s", c.method, c.url, val), in)
		return
	}
	if c.want4xx {
		rep.Hit("C08.c")
		if resp.Code < 400 || resp.Code > 499 || len(resp.Body) == 0 {
			rep.Violate("C08.c", fmt.Sprintf("malformed-accepted:%s:status-%d", c08KeysOf(c.url), resp.Code), fmt.Sprintf("%s: malformed/out-of-range parameter answered %d %q, want 4xx with a message", c.url, resp.Code, vTrim(resp.Body)), in)
		}
	}
	if resp.Code >= 500 && len(resp.Body) == 0 {
		rep.Violate("C08.a", "empty-5xx", fmt.Sprintf("%s %s: status %d with empty body", c.method, c.url, resp.Code), in)
	}
}

// vDoCT is vDo with a JSON content type for bodies.
func vDoCT(s *Server, method, u string, body []byte) (r vResp) {
	defer func() {
		if p := recover(); p != nil {
			// httptest.NewRequest panics on URLs it cannot parse: not a server fault
			r = vResp{Code: -1, Body: []byte(fmt.Sprint(p))}
		}
	}()
	return vDo(s, method, u, body)
}

func c08PanicClass(v string) string {
	switch {
	case strings.Contains(v, "index out of range"):
		return "index-out-of-range"
	case strings.Contains(v, "slice bounds"):
		return "slice-bounds"
	case strings.Contains(v, "nil pointer"):
		return "nil-deref"
	case strings.Contains(v, "divide by zero"):
		return "divide-by-zero"
	case strings.Contains(v, "conversion"):
		return "conversion"
	}
	if len(v) > 40 {
		v = v[:40]
	}
	return "explicit:" + v
}

// c08KeysOf lists the configuration keys of a livesim URL (for signatures).
func c08KeysOf(u string) string {
	var ks []string
	path := strings.SplitN(u, "?", 2)[0]
	for _, p := range strings.Split(path, "/") {
		p, _ = url.PathUnescape(p)
		if k, _, ok := strings.Cut(p, "_"); ok && k != "timesubsstpp" && k != "segtimeline" && k != "segtimelinenr" && k != "testpic" {
			ks = append(ks, k)
		}
	}
	return strings.Join(ks, "+")
}

func c08Shape(u string) string {
	return c08KeysOf(u)
}
