// vinstr rewrites the non-test Go files of the given livesim2 packages so that
// their synchronisation, goroutine, channel, time and shared-field operations go
// through the vrt controlled runtime. Output: rewritten copies under -out and a
// JSON list of {orig, rewritten}. /repo itself is never written.
//
// The rewriting is type-directed (go/packages) and semantics-preserving when no
// controlled execution is active: every shim falls through to the real thing.
package main

import (
	"bytes"
	"encoding/json"
	"flag"
	"fmt"
	"go/ast"
	"go/format"
	"go/token"
	"go/types"
	"os"
	"path/filepath"
	"strconv"
	"strings"

	"golang.org/x/tools/go/ast/astutil"
	"golang.org/x/tools/go/packages"
)

const shimRoot = "github.com/Dash-Industry-Forum/livesim2/internal/vshim/"

var (
	outDir      = flag.String("out", "", "output directory")
	repoDir     = flag.String("repo", "/repo", "repository root")
	hooks       = flag.Bool("hooks", true, "insert field access hooks")
	hookGlobals = flag.Bool("hookglobals", true, "hook reads and writes of the module's package-level variables")
	hookExt     = flag.Bool("hookext", true, "also hook fields of third-party (non-standard-library) struct types accessed in module code")
	mapIter     = flag.Bool("mapiter", true, "route map ranges through vrt.MapIter")
	loops       = flag.Bool("loops", true, "insert vrt.Loop() at the head of every for body")
)

type entry struct {
	Orig string `json:"orig"`
	New  string `json:"new"`
}

type stats struct {
	GoStmts, Sends, Recvs, Closes, Selects, FieldHooks, AppendHooks, FieldSkipped, MapRanges, Cancels, Loops int
}

func fail(pos token.Position, msg string) {
	fmt.Fprintf(os.Stderr, "vinstr: %s: %s\n", pos, msg)
	os.Exit(2)
}

func main() {
	flag.Parse()
	if *outDir == "" {
		fmt.Fprintln(os.Stderr, "need -out")
		os.Exit(2)
	}
	cfg := &packages.Config{
		Mode: packages.NeedName | packages.NeedFiles | packages.NeedSyntax | packages.NeedTypes |
			packages.NeedTypesInfo | packages.NeedImports | packages.NeedCompiledGoFiles,
		Dir: *repoDir,
	}
	pkgs, err := packages.Load(cfg, flag.Args()...)
	if err != nil {
		fmt.Fprintln(os.Stderr, "vinstr: load:", err)
		os.Exit(2)
	}
	var entries []entry
	st := &stats{}
	for _, p := range pkgs {
		if len(p.Errors) > 0 {
			for _, e := range p.Errors {
				fmt.Fprintln(os.Stderr, "vinstr: type error:", e)
			}
			os.Exit(2)
		}
		for i, f := range p.Syntax {
			name := p.CompiledGoFiles[i]
			if strings.HasSuffix(name, "_test.go") {
				continue
			}
			r := &rewriter{pkg: p, fset: p.Fset, info: p.TypesInfo, file: f, st: st}
			changed := r.rewrite()
			if !changed {
				continue
			}
			var buf bytes.Buffer
			if err := format.Node(&buf, p.Fset, f); err != nil {
				fail(p.Fset.Position(f.Pos()), "print: "+err.Error())
			}
			rel, _ := filepath.Rel(*repoDir, name)
			dst := filepath.Join(*outDir, rel)
			_ = os.MkdirAll(filepath.Dir(dst), 0o755)
			if err := os.WriteFile(dst, buf.Bytes(), 0o644); err != nil {
				fail(token.Position{}, err.Error())
			}
			entries = append(entries, entry{Orig: name, New: dst})
		}
	}
	out := map[string]any{"files": entries, "stats": st}
	b, _ := json.MarshalIndent(out, "", " ")
	_ = os.WriteFile(filepath.Join(*outDir, "vinstr.json"), b, 0o644)
}

type rewriter struct {
	pkg      *packages.Package
	fset     *token.FileSet
	info     *types.Info
	file     *ast.File
	st       *stats
	needVrt  bool
	tmpN     int
	selSends map[*ast.SendStmt]bool
}

func (r *rewriter) vrt(name string) ast.Expr {
	r.needVrt = true
	return &ast.SelectorExpr{X: ast.NewIdent("vrt"), Sel: ast.NewIdent(name)}
}

func (r *rewriter) call(name string, args ...ast.Expr) *ast.CallExpr {
	return &ast.CallExpr{Fun: r.vrt(name), Args: args}
}

func (r *rewriter) typeOf(e ast.Expr) types.Type {
	if tv, ok := r.info.Types[e]; ok {
		return tv.Type
	}
	return nil
}

func isChan(t types.Type) bool {
	if t == nil {
		return false
	}
	_, ok := t.Underlying().(*types.Chan)
	return ok
}

// ctxDoneArg returns ctx if e is the call ctx.Done() on a context.Context.
func (r *rewriter) ctxDoneArg(e ast.Expr) ast.Expr {
	c, ok := e.(*ast.CallExpr)
	if !ok || len(c.Args) != 0 {
		return nil
	}
	s, ok := c.Fun.(*ast.SelectorExpr)
	if !ok || s.Sel.Name != "Done" {
		return nil
	}
	t := r.typeOf(s.X)
	if t == nil {
		return nil
	}
	if n, ok := t.(*types.Named); ok && n.Obj().Pkg() != nil && n.Obj().Pkg().Path() == "context" && n.Obj().Name() == "Context" {
		return s.X
	}
	return nil
}

func (r *rewriter) rewrite() bool {
	changed := false
	// 1. imports
	for _, imp := range r.file.Imports {
		path, _ := strconv.Unquote(imp.Path.Value)
		var shim, defName string
		switch path {
		case "sync":
			shim, defName = "vsync", "sync"
		case "sync/atomic":
			shim, defName = "vatomic", "atomic"
		case "time":
			shim, defName = "vtime", "time"
		default:
			continue
		}
		if imp.Name == nil {
			imp.Name = ast.NewIdent(defName)
		}
		imp.Path.Value = strconv.Quote(shimRoot + shim)
		changed = true
	}

	// 2. statements and expressions
	handledRecv := map[*ast.UnaryExpr]bool{}
	r.selSends = map[*ast.SendStmt]bool{}
	pre := func(c *astutil.Cursor) bool {
		switch n := c.Node().(type) {
		case *ast.SelectStmt:
			r.markSelect(n, handledRecv)
		case *ast.AssignStmt:
			// v, ok := <-ch
			if len(n.Lhs) == 2 && len(n.Rhs) == 1 {
				if u, ok := n.Rhs[0].(*ast.UnaryExpr); ok && u.Op == token.ARROW && !handledRecv[u] {
					if r.ctxDoneArg(u.X) != nil {
						fail(r.fset.Position(u.Pos()), "v, ok := <-ctx.Done() not supported")
					}
					handledRecv[u] = true
					n.Rhs[0] = r.call("Recv2", u.X)
					r.st.Recvs++
					changed = true
				}
			}
		case *ast.RangeStmt:
			if isChan(r.typeOf(n.X)) {
				fail(r.fset.Position(n.Pos()), "range over channel not supported")
			}
		case *ast.ForStmt:
			if *loops {
				n.Body.List = append([]ast.Stmt{&ast.ExprStmt{X: r.call("Loop")}}, n.Body.List...)
				r.st.Loops++
				changed = true
			}
		}
		return true
	}
	post := func(c *astutil.Cursor) bool {
		switch n := c.Node().(type) {
		case *ast.SelectStmt:
			r.rewriteSelect(c, n)
			changed = true
		case *ast.GoStmt:
			c.Replace(r.rewriteGo(n))
			r.st.GoStmts++
			changed = true
		case *ast.SendStmt:
			if r.selSends[n] {
				return true // communication clause of a select: rewritten with the select
			}
			c.Replace(&ast.ExprStmt{X: r.call("Send", n.Chan, n.Value)})
			r.st.Sends++
			changed = true
		case *ast.UnaryExpr:
			if n.Op == token.ARROW && !handledRecv[n] {
				if ctx := r.ctxDoneArg(n.X); ctx != nil {
					c.Replace(r.call("CtxDone", ctx))
				} else {
					c.Replace(r.call("Recv", n.X))
				}
				r.st.Recvs++
				changed = true
			}
		case *ast.CallExpr:
			if id, ok := n.Fun.(*ast.Ident); ok {
				if b, ok := r.info.Uses[id].(*types.Builtin); ok {
					switch b.Name() {
					case "close":
						c.Replace(r.call("Close", n.Args[0]))
						r.st.Closes++
						changed = true
					case "len", "cap":
						if len(n.Args) == 1 && isChan(r.typeOf(n.Args[0])) {
							fail(r.fset.Position(n.Pos()), "len/cap of channel not supported")
						}
					}
				}
			}
			if s, ok := n.Fun.(*ast.SelectorExpr); ok && s.Sel.Name == "WithCancel" {
				if id, ok := s.X.(*ast.Ident); ok {
					if pn, ok := r.info.Uses[id].(*types.PkgName); ok && pn.Imported().Path() == "context" {
						n.Fun = r.vrt("WithCancel")
						r.st.Cancels++
						changed = true
					}
				}
			}
		}
		return true
	}
	astutil.Apply(r.file, pre, post)

	// 3. field access hooks and map ranges (separate pass over the already rewritten tree;
	// nodes created above carry no type info and are left alone)
	if *hooks || *mapIter {
		if r.hookPass() {
			changed = true
		}
	}
	if r.needVrt {
		astutil.AddNamedImport(r.fset, r.file, "vrt", shimRoot+"vrt")
		changed = true
	}
	return changed
}

func (r *rewriter) tmp(prefix string) *ast.Ident {
	r.tmpN++
	return ast.NewIdent(fmt.Sprintf("_vr%s%d", prefix, r.tmpN))
}

// go f(a, b)  =>  { _f, _a, _b := f, a, b; vrt.Go(func() { _f(_a, _b) }) }
// go func(){...}()  =>  vrt.Go(func(){...})   (no arguments)
func (r *rewriter) rewriteGo(g *ast.GoStmt) ast.Stmt {
	call := g.Call
	if fl, ok := call.Fun.(*ast.FuncLit); ok && len(call.Args) == 0 {
		return &ast.ExprStmt{X: r.call("Go", fl)}
	}
	if call.Ellipsis.IsValid() {
		fail(r.fset.Position(g.Pos()), "go with variadic spread not supported")
	}
	var lhs []ast.Expr
	var rhs []ast.Expr
	var fun ast.Expr = call.Fun
	if _, ok := call.Fun.(*ast.FuncLit); !ok {
		// method value or function value: evaluated at the go statement
		if r.isConversionOrBuiltin(call.Fun) {
			fail(r.fset.Position(g.Pos()), "go with builtin/conversion not supported")
		}
		f := r.tmp("f")
		lhs = append(lhs, f)
		rhs = append(rhs, call.Fun)
		fun = f
	}
	var args []ast.Expr
	for _, a := range call.Args {
		v := r.tmp("a")
		lhs = append(lhs, v)
		rhs = append(rhs, a)
		args = append(args, v)
	}
	// typed assignment is needed for untyped constants / nil; use the parameter types
	var stmts []ast.Stmt
	sig, _ := r.typeOf(call.Fun).Underlying().(*types.Signature)
	for i := range lhs {
		var typ ast.Expr
		if sig != nil {
			idx := i
			if fun != call.Fun {
				idx = i - 1
			}
			if idx >= 0 {
				if sig.Variadic() && idx >= sig.Params().Len()-1 {
					fail(r.fset.Position(g.Pos()), "go with variadic callee not supported")
				}
				tv := r.info.Types[rhs[i]]
				if tv.Value != nil || tv.IsNil() {
					typ = r.typeExpr(sig.Params().At(idx).Type(), g.Pos())
				}
			}
		}
		if typ != nil {
			stmts = append(stmts, &ast.DeclStmt{Decl: &ast.GenDecl{Tok: token.VAR, Specs: []ast.Spec{
				&ast.ValueSpec{Names: []*ast.Ident{lhs[i].(*ast.Ident)}, Type: typ, Values: []ast.Expr{rhs[i]}}}}})
		} else {
			stmts = append(stmts, &ast.AssignStmt{Lhs: []ast.Expr{lhs[i]}, Tok: token.DEFINE, Rhs: []ast.Expr{rhs[i]}})
		}
	}
	inner := &ast.CallExpr{Fun: fun, Args: args}
	stmts = append(stmts, &ast.ExprStmt{X: r.call("Go", &ast.FuncLit{
		Type: &ast.FuncType{Params: &ast.FieldList{}},
		Body: &ast.BlockStmt{List: []ast.Stmt{&ast.ExprStmt{X: inner}}},
	})})
	return &ast.BlockStmt{List: stmts}
}

func (r *rewriter) isConversionOrBuiltin(e ast.Expr) bool {
	tv, ok := r.info.Types[e]
	if !ok {
		return false
	}
	return tv.IsType() || tv.IsBuiltin()
}

func (r *rewriter) typeExpr(t types.Type, pos token.Pos) ast.Expr {
	s := types.TypeString(t, func(p *types.Package) string {
		if p == r.pkg.Types {
			return ""
		}
		// find the local name of the import
		for _, imp := range r.file.Imports {
			path, _ := strconv.Unquote(imp.Path.Value)
			if path == p.Path() || strings.HasSuffix(path, "/v"+p.Name()) && strings.HasPrefix(path, shimRoot) {
				if imp.Name != nil {
					return imp.Name.Name
				}
				return p.Name()
			}
		}
		fail(r.fset.Position(pos), "type "+t.String()+" needs an import that the file does not have")
		return ""
	})
	e, err := parseExpr(s)
	if err != nil {
		fail(r.fset.Position(pos), "cannot express type "+s)
	}
	return e
}

// select with receive-only clauses =>
//
//	switch _i, _v := vrt.Select(cases...); _i { case 0: x := vrt.SelVal(ch, _v); body ... }
func (r *rewriter) commRecv(cc *ast.CommClause) (*ast.UnaryExpr, *ast.AssignStmt) {
	if cc.Comm == nil {
		fail(r.fset.Position(cc.Pos()), "select with default not supported")
	}
	if _, isSend := cc.Comm.(*ast.SendStmt); isSend {
		return nil, nil // a send clause: handled by the caller
	}
	var recv *ast.UnaryExpr
	var assign *ast.AssignStmt
	switch s := cc.Comm.(type) {
	case *ast.ExprStmt:
		recv, _ = s.X.(*ast.UnaryExpr)
	case *ast.AssignStmt:
		if len(s.Rhs) == 1 && len(s.Lhs) == 1 {
			recv, _ = s.Rhs[0].(*ast.UnaryExpr)
			assign = s
		}
	}
	if recv == nil || recv.Op != token.ARROW {
		fail(r.fset.Position(cc.Pos()), "select clause is not a simple receive")
	}
	return recv, assign
}

func (r *rewriter) markSelect(sel *ast.SelectStmt, handled map[*ast.UnaryExpr]bool) {
	for _, cl := range sel.Body.List {
		if snd, ok := cl.(*ast.CommClause).Comm.(*ast.SendStmt); ok {
			r.selSends[snd] = true
			continue
		}
		recv, _ := r.commRecv(cl.(*ast.CommClause))
		handled[recv] = true
	}
}

func (r *rewriter) rewriteSelect(c *astutil.Cursor, sel *ast.SelectStmt) {
	iv, vv := r.tmp("i"), r.tmp("v")
	var cases []ast.Expr
	var clauses []ast.Stmt
	usedV := false
	for _, cl := range sel.Body.List {
		cc := cl.(*ast.CommClause)
		recv, assign := r.commRecv(cc)
		idx := len(cases)
		var body []ast.Stmt
		if snd, ok := cc.Comm.(*ast.SendStmt); ok {
			cases = append(cases, r.call("CaseSend", snd.Chan, snd.Value))
		} else if ctx := r.ctxDoneArg(recv.X); ctx != nil {
			cases = append(cases, r.call("CaseCtx", ctx))
		} else {
			cases = append(cases, r.call("CaseRecv", recv.X))
			if assign != nil {
				usedV = true
				body = append(body, &ast.AssignStmt{Lhs: assign.Lhs, Tok: assign.Tok,
					Rhs: []ast.Expr{r.call("SelVal", recv.X, vv)}})
			}
		}
		body = append(body, cc.Body...)
		clauses = append(clauses, &ast.CaseClause{
			List: []ast.Expr{&ast.BasicLit{Kind: token.INT, Value: strconv.Itoa(idx)}},
			Body: body,
		})
	}
	var vIdent ast.Expr = vv
	if !usedV {
		vIdent = ast.NewIdent("_")
	}
	sw := &ast.SwitchStmt{
		Init: &ast.AssignStmt{Lhs: []ast.Expr{iv, vIdent}, Tok: token.DEFINE, Rhs: []ast.Expr{r.call("Select", cases...)}},
		Tag:  iv,
		Body: &ast.BlockStmt{List: clauses},
	}
	r.st.Selects++
	c.Replace(sw)
}
