package app

// C12 — generated time subtitles show the right UTC second at the right media time.
// E3: languages x cue durations x region x {stpp, wvtt} x MPD types x start x every n over the cycle
// after which (segment start mod 1 s) repeats; reference = per-UTC-second cue model.

import (
	"fmt"
	"regexp"
	"strconv"
	"strings"
	"testing"
	"time"

	"github.com/Dash-Industry-Forum/livesim2/internal/vshim/vh"
	"github.com/Dash-Industry-Forum/livesim2/internal/vshim/vref"
)

var c12CueRe = regexp.MustCompile(`<p xml:id="([^"]*)" begin="(\d+):(\d\d):(\d\d)\.(\d\d\d)" end="(\d+):(\d\d):(\d\d)\.(\d\d\d)"><span style="s1">([^<]*)<br/>([^<]*)</span></p>`)

type c12Cue struct {
	begin, end int64 // media ms
	utc        string
	rest       string
	empty      bool // wvtt gap sample
}

func c12ms(h, m, s, ms string) int64 {
	a, _ := strconv.ParseInt(h, 10, 64)
	b, _ := strconv.ParseInt(m, 10, 64)
	c, _ := strconv.ParseInt(s, 10, 64)
	d, _ := strconv.ParseInt(ms, 10, 64)
	return a*3600000 + b*60000 + c*1000 + d
}

func TestVerifC12(t *testing.T) {
	rep := vh.NewReport("C12")
	defer rep.Write()
	quick := vh.Quick()
	type sel struct{ root, path string }
	sels := []sel{{vBundledRoot, "testpic_2s"}}
	if g := vGenRoot(); g != "" {
		sels = append(sels, sel{g, "g_3x1500ms"}, sel{g, "g_1001"}, sel{g, "g_1920ms"})
		if !quick {
			sels = append(sels, sel{g, "g_sub_second"}, sel{g, "g_irregular_time"})
		}
	}
	if x := vGenExtraRoot(); x != "" {
		sels = append(sels, sel{x, "x_ts_10mhz"})
	}
	sels = append(sels, sel{vBundledRoot, "WAVE/vectors/cfhd_sets/14.985_29.97_59.94/t1/2022-10-17"})
	if !quick {
		sels = append(sels, sel{vBundledRoot, "testpic_8s"})
	}
	cueDurs := []int64{1, 100, 500, 900, 999, 1000, 1001, 1500, 1800, 2000, 3000}
	job := 0
	for _, s := range sels {
		a, err := vAsset(s.root, s.path)
		if err != nil || !a.LoopExact {
			continue
		}
		srv, err := vServer(s.root)
		if err != nil {
			t.Fatalf("server: %v", err)
		}
		if _, ok := srv.assetMgr.assets[s.path]; !ok {
			continue
		}
		for _, cd := range cueDurs {
			for _, region := range []int{0, 1} {
				for _, kind := range []string{"stpp", "wvtt"} {
					for _, mode := range []string{"number", "tlnr", "tltime"} {
						for _, start := range []int64{0, 900, 1_700_000_000} {
							job++
							if !vh.Mine(job) {
								continue
							}
							if quick && (job/16)%3 != 0 {
								continue
							}
							if rep.OutOfBudget() {
								return
							}
							c12Run(rep, srv, a, s.path, cd, region, kind, mode, start, quick)
						}
					}
				}
			}
		}
	}
}

func c12Run(rep *vh.Report, srv *Server, a *vref.VAsset, asset string, cueDur int64, region int, kind, mode string, start int64, quick bool) {
	v := a.Ref
	N := int64(len(v.Segs))
	var parts []string
	switch mode {
	case "tltime":
		parts = append(parts, "segtimeline_1")
	case "tlnr":
		parts = append(parts, "segtimelinenr_1")
	}
	parts = append(parts, "timesubsstpp_en,sv", "timesubswvtt_en,sv", fmt.Sprintf("timesubsdur_%d", cueDur), fmt.Sprintf("timesubsreg_%d", region))
	if start > 0 {
		parts = append(parts, fmt.Sprintf("start_%d", start))
	}
	prefix := vCfgPrefix(parts...)
	// number of loops after which (segment start mod 1 s) repeats
	P := int64(1)
	for k := int64(1); k <= 500; k++ {
		if (uint64(k)*v.LoopTicks())%v.TS == 0 {
			P = k
			break
		}
		P = k
	}
	capP := int64(8)
	if !quick {
		capP = 100
	}
	if P > capP {
		rep.Cap(fmt.Sprintf("%s: second-phase cycle of %d loops capped at %d", asset, P, capP))
		P = capP
	}
	langs := []string{"en", "sv"}
	tag := fmt.Sprintf("%s:%s", kind, vIf(cueDur > 1000, "cue>1s", "cue<=1s"))
	first := true
	for n := int64(0); n <= P*N+1; n++ {
		lang := langs[n%2]
		vs, ve := v.LiveStart(n), v.LiveEnd(n)
		startLo, startHi := vref.TicksToMSFloor(vs, v.TS), vref.TicksToMSCeil(vs, v.TS)
		endLo, endHi := vref.TicksToMSFloor(ve, v.TS), vref.TicksToMSCeil(ve, v.TS)
		if mode == "tltime" && startLo != startHi {
			continue // $Time$ addressing in ms needs whole-ms segment starts (see DESIGN, C12)
		}
		repID := map[string]string{"stpp": "timestpp-", "wvtt": "timewvtt-"}[kind] + lang
		name := fmt.Sprintf("%s/%d.m4s", repID, n)
		if mode == "tltime" {
			name = fmt.Sprintf("%s/%d.m4s", repID, startLo)
		}
		now := start*1000 + endHi + 1
		url := fmt.Sprintf("%s/%s/%s?nowMS=%d", prefix, asset, name, now)
		resp := vGet(srv, url)
		rep.AddStates(1)
		rep.AddExecs(1)
		if !first {
			rep.AddTrans(1)
		}
		first = false
		viol := func(clause, sig, msg string) {
			rep.Violate(clause, sig+":"+tag, fmt.Sprintf("%s %s n=%d cueDur=%d region=%d start=%d: %s", asset, name, n, cueDur, region, start, msg), map[string]any{"url": url})
		}
		if resp.Code != 200 {
			if resp.vCrashed() {
				site, val := vPanicSite(srv.livesimHandlerFunc, "GET", url, nil)
				viol("C12.status", "panic:"+site, val)
			} else {
				viol("C12.status", fmt.Sprintf("status-%d", resp.Code), fmt.Sprintf("status %d %q", resp.Code, vTrim(resp.Body)))
			}
			continue
		}
		sg, err := vref.ParseSegment(resp.Body, vref.Trex{})
		if err != nil {
			viol("C12.a", "unparsable", err.Error())
			continue
		}
		// (a) number, decode time and duration of the reference video segment in ms
		rep.Hit("C12.a")
		tf, du := int64(sg.Start()), int64(sg.Dur())
		if int64(sg.Frags[0].Seq) != n || tf < startLo || tf > startHi || tf+du < endLo || tf+du > endHi {
			viol("C12.a", "segment-timing", fmt.Sprintf("seq=%d tfdt=%d dur=%d; reference video segment index %d is [%d..%d, %d..%d] ms", sg.Frags[0].Seq, tf, du, n, startLo, startHi, endLo, endHi))
			continue
		}
		segS, segE := tf, tf+du
		utc0 := segS + start*1000
		// collect cues
		var cues []c12Cue
		samples := sg.Samples()
		if kind == "stpp" {
			if len(samples) != 1 {
				viol("C12.c", "stpp-sample-count", fmt.Sprintf("%d samples", len(samples)))
				continue
			}
			doc := string(samples[0].Data)
			if !strings.Contains(doc, fmt.Sprintf(`xml:lang="%s"`, lang)) || !strings.Contains(doc, fmt.Sprintf(`<div region="r%d">`, region)) {
				viol("C12.b", "stpp-lang-region", "document language or region does not match the request")
			}
			for _, m := range c12CueRe.FindAllStringSubmatch(doc, -1) {
				cues = append(cues, c12Cue{begin: c12ms(m[2], m[3], m[4], m[5]), end: c12ms(m[6], m[7], m[8], m[9]), utc: m[10], rest: m[11]})
			}
			if strings.Count(doc, "<p ") != len(cues) {
				viol("C12.b", "stpp-cue-syntax", fmt.Sprintf("%d <p> elements, %d parsed", strings.Count(doc, "<p "), len(cues)))
			}
		} else {
			// (d) wvtt samples tile the segment exactly
			rep.Hit("C12.d")
			tcur := segS
			for i, sm := range samples {
				bx, err := vref.Boxes(sm.Data)
				if err != nil || len(bx) != 1 {
					viol("C12.d", "wvtt-sample-boxes", fmt.Sprintf("sample %d: %v (%d boxes)", i, err, len(bx)))
					break
				}
				c := c12Cue{begin: tcur, end: tcur + int64(sm.Dur)}
				switch bx[0].Type {
				case "vtte":
					c.empty = true
				case "vttc":
					inner, _ := vref.Boxes(bx[0].Body)
					hasSttg := false
					for _, ib := range inner {
						if ib.Type == "sttg" {
							hasSttg = true
						}
						if ib.Type == "payl" {
							p := strings.SplitN(string(ib.Body), "\n", 2)
							c.utc = p[0]
							if len(p) > 1 {
								c.rest = p[1]
							}
						}
					}
					if hasSttg != (region == 1) {
						viol("C12.b", "wvtt-region", fmt.Sprintf("sample %d: sttg present=%v, region=%d", i, hasSttg, region))
					}
				default:
					viol("C12.d", "wvtt-sample-type", fmt.Sprintf("sample %d is a %q box", i, bx[0].Type))
				}
				if sm.Dur == 0 {
					viol("C12.d", "wvtt-zero-duration-sample", fmt.Sprintf("sample %d has duration 0", i))
				}
				tcur += int64(sm.Dur)
				if !c.empty {
					cues = append(cues, c)
				}
			}
			if tcur != segE {
				viol("C12.d", "wvtt-tiling", fmt.Sprintf("samples end at %d, segment ends at %d", tcur, segE))
			}
		}
		// (c) ordered, non-overlapping, inside the segment, begin < end
		rep.Hit("C12.c")
		bad := false
		for i, c := range cues {
			if c.begin >= c.end {
				viol("C12.c", "cue-empty-or-reversed", fmt.Sprintf("cue %d: begin %d end %d", i, c.begin, c.end))
				bad = true
			}
			if c.begin < segS || c.end > segE {
				viol("C12.c", "cue-outside-segment", fmt.Sprintf("cue %d [%d,%d] outside the segment [%d,%d]", i, c.begin, c.end, segS, segE))
				bad = true
			}
			if i > 0 && c.begin < cues[i-1].end {
				viol("C12.c", "cue-overlap", fmt.Sprintf("cue %d begins at %d before cue %d ends at %d", i, c.begin, i-1, cues[i-1].end))
				bad = true
			}
		}
		// (b) exactly one cue per UTC second intersecting the segment
		rep.Hit("C12.b")
		type want struct {
			sec        int64
			begin, end int64
		}
		// two accepted readings of "lasting the configured cue duration": counted from the start of
		// the UTC second (A) or from the cue's own (clipped) begin (B)
		build := func(fromBegin bool) []want {
			var ws []want
			for u := utc0 / 1000; u*1000 < utc0+du; u++ {
				b := u * 1000
				if b < utc0 {
					b = utc0
				}
				lim := (u + 1) * 1000 // next cue's begin
				if lim > utc0+du {
					lim = utc0 + du
				}
				e := u*1000 + cueDur
				if fromBegin {
					e = b + cueDur
				}
				if e > lim {
					e = lim
				}
				if e <= b {
					continue // nothing of this second's cue is left inside the segment
				}
				ws = append(ws, want{u, b - start*1000, e - start*1000})
			}
			return ws
		}
		match := func(ws []want) (bool, string, string) {
			if len(cues) != len(ws) {
				return false, "cue-count", fmt.Sprintf("%d cues, reference has %d for the segment [%d,%d] (utc %d)", len(cues), len(ws), segS, segE, utc0)
			}
			for i, w := range ws {
				c := cues[i]
				wantUTC := time.Unix(w.sec, 0).UTC().Format(time.RFC3339)
				if c.utc != wantUTC {
					return false, "cue-second", fmt.Sprintf("cue %d shows %q, want %q", i, c.utc, wantUTC)
				}
				if c.rest != fmt.Sprintf("%s # %d", lang, n) {
					return false, "cue-text", fmt.Sprintf("cue %d text %q, want %q", i, c.rest, fmt.Sprintf("%s # %d", lang, n))
				}
				if c.begin != w.begin || c.end != w.end {
					return false, "cue-times", fmt.Sprintf("cue %d for second %d is [%d,%d], want [%d,%d]", i, w.sec, c.begin, c.end, w.begin, w.end)
				}
			}
			return true, "", ""
		}
		if okA, sigA, msgA := match(build(false)); !okA {
			if okB, _, _ := match(build(true)); !okB && !bad {
				viol("C12.b", sigA, msgA)
			}
		}
		// (e) MPD mirror (every few segments)
		if n%4 == 0 {
			c12MPD(rep, srv, a, asset, prefix, mode, start, now, viol)
		}
	}
	rep.Sample(map[string]any{"asset": asset, "kind": kind, "cueDurMS": cueDur, "region": region, "mode": mode, "start": start, "loops": P})
	rep.Outcome(fmt.Sprintf("%s|%s|%d|%s", asset, kind, cueDur, mode))
}

func c12MPD(rep *vh.Report, srv *Server, a *vref.VAsset, asset, prefix, mode string, start, now int64, viol func(clause, sig, msg string)) {
	mn := vMPDNameFor(a, a.Ref.ID)
	u := fmt.Sprintf("%s/%s/%s?nowMS=%d", prefix, asset, mn, now)
	r := vGet(srv, u)
	rep.AddExecs(1)
	if r.Code != 200 {
		if r.vCrashed() {
			site, val := vPanicSite(srv.livesimHandlerFunc, "GET", u, nil)
			viol("C12.e", "mpd-panic:"+site, val)
		} else {
			viol("C12.e", fmt.Sprintf("mpd-status-%d", r.Code), vTrim(r.Body))
		}
		return
	}
	m, err := vref.ParseMPD(r.Body)
	if err != nil {
		viol("C12.e", "mpd-unparsable", err.Error())
		return
	}
	rep.Hit("C12.e")
	var vt *vref.SegTemplate
	subs := map[string]*vref.SegTemplate{}
	for ai := range m.Periods[0].AS {
		as := &m.Periods[0].AS[ai]
		for ri := range as.Reps {
			if as.Reps[ri].ID == a.Ref.ID {
				vt = as.Template(&as.Reps[ri])
			}
			if strings.HasPrefix(as.Reps[ri].ID, "timestpp-") || strings.HasPrefix(as.Reps[ri].ID, "timewvtt-") {
				subs[as.Reps[ri].ID] = as.Template(&as.Reps[ri])
			}
		}
	}
	// the generated AdaptationSets are distinct elements of the Period: no two share an id
	seenID := map[string]string{}
	for ai := range m.Periods[0].AS {
		as := &m.Periods[0].AS[ai]
		if as.ID == "" || len(as.Reps) == 0 {
			continue
		}
		if other, dup := seenID[as.ID]; dup {
			viol("C12.e", "duplicate-adaptation-set-id", fmt.Sprintf("AdaptationSets with representations %s and %s both have id=%q", other, as.Reps[0].ID, as.ID))
		}
		seenID[as.ID] = as.Reps[0].ID
	}
	if vt == nil || len(subs) != 4 {
		viol("C12.e", "mpd-adaptation-sets", fmt.Sprintf("video template found=%v, %d generated subtitle representations (want 4)", vt != nil, len(subs)))
		return
	}
	for id, st := range subs {
		if st.TS() != 1000 {
			viol("C12.e", "subs-timescale", fmt.Sprintf("%s timescale %d", id, st.TS()))
		}
		if (vt.Timeline == nil) != (st.Timeline == nil) {
			viol("C12.e", "subs-template-kind", fmt.Sprintf("%s: timeline presence differs from video", id))
			continue
		}
		if vt.Timeline != nil {
			if len(vt.Timeline.S) != len(st.Timeline.S) {
				viol("C12.e", "subs-timeline-length", fmt.Sprintf("%s: %d S entries, video has %d", id, len(st.Timeline.S), len(vt.Timeline.S)))
				continue
			}
			for i, vs := range vt.Timeline.S {
				ss := st.Timeline.S[i]
				okT := vs.T == nil && ss.T == nil
				if vs.T != nil && ss.T != nil {
					lo, hi := vref.TicksToMSFloor(*vs.T, vt.TS()), vref.TicksToMSCeil(*vs.T, vt.TS())
					okT = int64(*ss.T) >= lo && int64(*ss.T) <= hi
				}
				dlo, dhi := vref.TicksToMSFloor(vs.D, vt.TS()), vref.TicksToMSCeil(vs.D, vt.TS())
				if !okT || int64(ss.D) < dlo || int64(ss.D) > dhi || ss.R != vs.R {
					viol("C12.e", "subs-timeline-entry", fmt.Sprintf("%s entry %d: (t=%v d=%d r=%d) does not mirror video (t=%v d=%d r=%d ts=%d)", id, i, c12p(ss.T), ss.D, ss.R, c12p(vs.T), vs.D, vs.R, vt.TS()))
					break
				}
			}
		} else if vt.Duration != nil && st.Duration != nil {
			lo, hi := vref.TicksToMSFloor(*vt.Duration, vt.TS()), vref.TicksToMSCeil(*vt.Duration, vt.TS())
			if int64(*st.Duration) < lo || int64(*st.Duration) > hi {
				viol("C12.e", "subs-duration", fmt.Sprintf("%s duration %d ms, video %d/%d", id, *st.Duration, *vt.Duration, vt.TS()))
			}
			var a1, a2 uint64
			if vt.StartNumber != nil {
				a1 = *vt.StartNumber
			}
			if st.StartNumber != nil {
				a2 = *st.StartNumber
			}
			if a1 != a2 {
				viol("C12.e", "subs-startnumber", fmt.Sprintf("%s startNumber %d, video %d", id, a2, a1))
			}
		}
	}
}

func c12p(p *uint64) string {
	if p == nil {
		return "-"
	}
	return fmt.Sprint(*p)
}
