package vref

import "fmt"

// Own splice_info_section reader (SCTE-35) and MPEG-2 CRC-32.

type SpliceInfo struct {
	TableID       byte
	SectionLength int
	CommandType   byte
	EventID       uint32
	Cancel        bool
	OutOfNetwork  bool
	ProgramSplice bool
	HasDuration   bool
	Immediate     bool
	TimeSpecified bool
	PTS           uint64
	AutoReturn    bool
	Duration      uint64
	CRCOK         bool
	Tier          uint16
}

func CRC32MPEG2(b []byte) uint32 {
	crc := uint32(0xFFFFFFFF)
	for _, x := range b {
		crc ^= uint32(x) << 24
		for i := 0; i < 8; i++ {
			if crc&0x80000000 != 0 {
				crc = (crc << 1) ^ 0x04C11DB7
			} else {
				crc <<= 1
			}
		}
	}
	return crc
}

type bitReader struct {
	b   []byte
	pos int // bit position
	err error
}

func (r *bitReader) u(n int) uint64 {
	var v uint64
	for i := 0; i < n; i++ {
		byteI := r.pos / 8
		if byteI >= len(r.b) {
			r.err = fmt.Errorf("read past end")
			return 0
		}
		bit := (r.b[byteI] >> (7 - uint(r.pos%8))) & 1
		v = v<<1 | uint64(bit)
		r.pos++
	}
	return v
}

func ParseSpliceInfo(b []byte) (*SpliceInfo, error) {
	r := &bitReader{b: b}
	si := &SpliceInfo{}
	si.TableID = byte(r.u(8))
	r.u(4)
	si.SectionLength = int(r.u(12))
	if 3+si.SectionLength != len(b) {
		return nil, fmt.Errorf("section_length %d does not match payload of %d bytes", si.SectionLength, len(b))
	}
	si.CRCOK = CRC32MPEG2(b) == 0
	r.u(8)  // protocol version
	r.u(7)  // encrypted + algorithm
	r.u(33) // pts_adjustment
	r.u(8)  // cw_index
	si.Tier = uint16(r.u(12))
	r.u(12) // splice_command_length
	si.CommandType = byte(r.u(8))
	if si.CommandType != 0x05 {
		return si, r.err
	}
	si.EventID = uint32(r.u(32))
	si.Cancel = r.u(1) == 1
	r.u(7)
	if !si.Cancel {
		si.OutOfNetwork = r.u(1) == 1
		si.ProgramSplice = r.u(1) == 1
		si.HasDuration = r.u(1) == 1
		si.Immediate = r.u(1) == 1
		r.u(4)
		if si.ProgramSplice && !si.Immediate {
			si.TimeSpecified = r.u(1) == 1
			if si.TimeSpecified {
				r.u(6)
				si.PTS = r.u(33)
			} else {
				r.u(7)
			}
		}
		if si.HasDuration {
			si.AutoReturn = r.u(1) == 1
			r.u(6)
			si.Duration = r.u(33)
		}
	}
	return si, r.err
}
