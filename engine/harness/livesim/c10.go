package app

// C10 — advertised key ids, init segments, licences and ciphertext agree.
// E3: encryptable assets x {eccp_cenc, eccp_cbcs, every configured CPIX package} x every n over a
// loop + wrap x {whole, chunked} x MPD types. Oracle: KID(MPD) == KID(init) == licence kid and
// decrypt(served) == clear(served). Decryption uses mp4ff's decryptor (trusted base).

import (
	"bytes"
	"encoding/base64"
	"encoding/hex"
	"encoding/json"
	"fmt"
	"net/http"
	"net/http/httptest"
	"os"
	"path/filepath"
	"regexp"
	"sort"
	"strings"
	"testing"

	"github.com/Dash-Industry-Forum/livesim2/internal/vshim/vh"
	"github.com/Dash-Industry-Forum/livesim2/internal/vshim/vref"
	"github.com/Dash-Industry-Forum/livesim2/internal/vshim/vrt"
	"github.com/Dash-Industry-Forum/livesim2/pkg/drm"
	"github.com/Eyevinn/mp4ff/bits"
	"github.com/Eyevinn/mp4ff/mp4"
)

const c10DrmCfg = "../../../pkg/drm/testdata/drm_config_test.json"

var c10CpixKeyRe = regexp.MustCompile(`(?s)<cpix:ContentKey [^>]*kid="([0-9a-fA-F-]+)"[^>]*>.*?<pskc:PlainValue>([^<]+)</pskc:PlainValue>`)
var c10CpixRuleRe = regexp.MustCompile(`<cpix:ContentKeyUsageRule kid="([0-9a-fA-F-]+)" intendedTrackType="([A-Za-z]+)"`)

type c10Pkg struct {
	name   string
	keys   map[string][]byte // kid hex -> key
	byType map[string]string // video/audio -> kid hex
}

// c10ExtendedCfg writes a copy of the DRM configuration with one more package: the one-key cbcs
// package without the (optional) explicitIV attribute. Returns the path of the new configuration.
func c10ExtendedCfg(dir string) (string, error) {
	raw, err := os.ReadFile(c10DrmCfg)
	if err != nil {
		return "", err
	}
	var cfg map[string]any
	if err := json.Unmarshal(raw, &cfg); err != nil {
		return "", err
	}
	pk, _ := cfg["packages"].([]any)
	for _, p := range pk {
		m := p.(map[string]any)
		f, _ := m["cpixFile"].(string)
		x, err := os.ReadFile(filepath.Join(filepath.Dir(c10DrmCfg), f))
		if err != nil {
			return "", err
		}
		if err := os.WriteFile(filepath.Join(dir, f), x, 0o644); err != nil {
			return "", err
		}
	}
	src, err := os.ReadFile(filepath.Join(filepath.Dir(c10DrmCfg), "cpix_1key_cbcs_test.xml"))
	if err != nil {
		return "", err
	}
	noIV := regexp.MustCompile(` explicitIV="[^"]*"`).ReplaceAll(src, nil)
	if err := os.WriteFile(filepath.Join(dir, "cpix_noiv_cbcs.xml"), noIV, 0o644); err != nil {
		return "", err
	}
	first := pk[0].(map[string]any)
	extra := map[string]any{}
	for k, v := range first {
		extra[k] = v
	}
	extra["name"] = "NOIV-1-key-cbcs"
	extra["cpixFile"] = "cpix_noiv_cbcs.xml"
	pk = append(pk, extra)
	// two more packages that use the SAME key id and key as the one-key package: one with another
	// explicitIV, one with the cenc scheme (one key offered per DRM vendor / per scheme). The init
	// segment and the ciphertext of each must still agree, whatever was asked of this server before.
	otherIV := bytes.Replace(src, []byte(`explicitIV="ASNFZ4mrze8BI0VniavN7w=="`), []byte(`explicitIV="/ty6mHZUMhD+3LqYdlQyEA=="`), 1)
	asCenc := bytes.Replace(src, []byte(`commonEncryptionScheme="cbcs"`), []byte(`commonEncryptionScheme="cenc"`), 1)
	if bytes.Equal(otherIV, src) || bytes.Equal(asCenc, src) {
		return "", fmt.Errorf("cpix_1key_cbcs_test.xml has not the expected explicitIV / scheme attributes")
	}
	for _, x := range []struct {
		name, file string
		data       []byte
	}{{"SAMEKEY-otheriv-cbcs", "cpix_samekey_otheriv.xml", otherIV}, {"SAMEKEY-cenc", "cpix_samekey_cenc.xml", asCenc}} {
		if err := os.WriteFile(filepath.Join(dir, x.file), x.data, 0o644); err != nil {
			return "", err
		}
		e := map[string]any{}
		for k, v := range first {
			e[k] = v
		}
		e["name"] = x.name
		e["cpixFile"] = x.file
		pk = append(pk, e)
	}
	cfg["packages"] = pk
	out, _ := json.Marshal(cfg)
	path := filepath.Join(dir, "drm_config_ext.json")
	return path, os.WriteFile(path, out, 0o644)
}

func c10LoadPkgs(cfgPath string) ([]c10Pkg, error) {
	raw, err := os.ReadFile(cfgPath)
	if err != nil {
		return nil, err
	}
	var cfg struct {
		Packages []struct {
			Name     string `json:"name"`
			CpixFile string `json:"cpixFile"`
		} `json:"packages"`
	}
	if err := json.Unmarshal(raw, &cfg); err != nil {
		return nil, err
	}
	var out []c10Pkg
	for _, p := range cfg.Packages {
		x, err := os.ReadFile(filepath.Join(filepath.Dir(cfgPath), p.CpixFile))
		if err != nil {
			return nil, err
		}
		pk := c10Pkg{name: p.Name, keys: map[string][]byte{}, byType: map[string]string{}}
		for _, m := range c10CpixKeyRe.FindAllStringSubmatch(string(x), -1) {
			k, err := base64.StdEncoding.DecodeString(m[2])
			if err != nil {
				return nil, err
			}
			pk.keys[c10Norm(m[1])] = k
		}
		for _, m := range c10CpixRuleRe.FindAllStringSubmatch(string(x), -1) {
			pk.byType[strings.ToLower(m[2])] = c10Norm(m[1])
		}
		out = append(out, pk)
	}
	return out, nil
}

func c10Norm(kid string) string { return strings.ToLower(strings.ReplaceAll(kid, "-", "")) }

func TestVerifC10(t *testing.T) {
	rep := vh.NewReport("C10")
	defer rep.Write()
	quick := vh.Quick()
	cfgDir, err := os.MkdirTemp(os.Getenv("VERIF_SCRATCH"), "c10drm")
	if err != nil {
		t.Fatalf("scratch: %v", err)
	}
	defer os.RemoveAll(cfgDir)
	cfgPath, err := c10ExtendedCfg(cfgDir)
	if err != nil {
		t.Fatalf("drm config: %v", err)
	}
	pkgs, err := c10LoadPkgs(cfgPath)
	if err != nil {
		t.Fatalf("cpix: %v", err)
	}
	roots := []string{vBundledRoot}
	if g := vGenRoot(); g != "" {
		roots = append(roots, g)
	}
	job := 0
	for _, root := range roots {
		srv, err := vNewServer(root, "", false)
		if err != nil {
			t.Fatalf("server: %v", err)
		}
		dc, err := drm.ReadDrmConfig(cfgPath)
		if err != nil {
			t.Fatalf("drm config: %v", err)
		}
		srv.Cfg.DrmCfg = dc
		for _, ap := range vAssetPaths(root) {
			if vTimeOffsetAsset(ap) {
				continue
			}
			a, err := vAsset(root, ap)
			if err != nil || !a.LoopExact {
				continue
			}
			if _, ok := srv.assetMgr.assets[ap]; !ok {
				continue
			}
			if !strings.HasPrefix(a.Ref.Codecs, "avc") {
				continue // only AVC + AAC are prepared for encryption
			}
			if quick && strings.HasPrefix(ap, "WAVE") {
				continue
			}
			drms := []string{"eccp_cenc", "eccp_cbcs"}
			for _, p := range pkgs {
				drms = append(drms, "drm_"+p.name)
			}
			// the order of DRM modes on one server instance matters for history-dependent defects:
			// every mode is visited, then visited again in reverse order
			order := append(append([]string{}, drms...), c10Reverse(drms)...)
			for oi, d := range order {
				for _, mode := range []string{"number", "tltime", "tlnr"} {
					for _, chunked := range []bool{false, true} {
						job++
						if !vh.Mine(jobShardKey(ap)) { // all jobs of one asset run on the same shard/server instance
							continue
						}
						if quick && oi >= len(drms) && (mode != "number" || chunked) {
							continue
						}
						if rep.OutOfBudget() {
							return
						}
						c10Run(rep, srv, a, ap, d, mode, chunked, pkgs, quick)
					}
				}
			}
		}
	}
	// (d) DRM on a pre-encrypted asset is refused
	if sh, _ := vh.Shard(); sh == 0 {
		c10PreEncrypted(t, rep)
	}
	// (e) a server instance that loaded its representation data from the metadata cache
	// (written by an earlier run) must serve the same protected content
	if sh, nsh := vh.Shard(); sh == nsh-1 {
		dir, err := os.MkdirTemp(os.Getenv("VERIF_SCRATCH"), "c10cache")
		if err != nil {
			t.Fatalf("scratch: %v", err)
		}
		defer os.RemoveAll(dir)
		if _, err := vNewServer(vBundledRoot, dir, true); err != nil {
			t.Fatalf("cache-writing server: %v", err)
		}
		srv, err := vNewServer(vBundledRoot, dir, false)
		if err != nil {
			t.Fatalf("cache-loading server: %v", err)
		}
		if dc, err := drm.ReadDrmConfig(cfgPath); err == nil {
			srv.Cfg.DrmCfg = dc
		}
		for _, ap := range []string{"testpic_2s", "testpic_8s"} {
			a, err := vAsset(vBundledRoot, ap)
			if err != nil {
				continue
			}
			drms := []string{"eccp_cenc", "eccp_cbcs"}
			for _, p := range pkgs {
				drms = append(drms, "drm_"+p.name)
			}
			for _, d := range drms {
				for _, chunked := range []bool{false, true} {
					c10Run(rep, srv, a, ap, d, "number", chunked, pkgs, true)
				}
			}
		}
	}
}

func jobShardKey(s string) int {
	h := 0
	for _, c := range s {
		h = h*31 + int(c)
	}
	if h < 0 {
		h = -h
	}
	return h
}

func c10Reverse(s []string) []string {
	out := make([]string, len(s))
	for i := range s {
		out[len(s)-1-i] = s[i]
	}
	return out
}

// c10GetStalls fetches a chunked URL once per client-stall choice (<= 1 stalled Flush, every
// position) on the virtual clock and returns every body.
func c10GetStalls(srv *Server, url string, startMS int64) []vResp {
	var out []vResp
	vrt.Explore(vrt.ExploreOpts{RunOpts: vrt.RunOpts{StartNS: startMS * 1_000_000, WatchdogS: 60}, Bound: 1, MaxExec: 64}, func(s *vrt.Sched) {
		w := &c09Writer{hdr: http.Header{}, stallMS: 300, s: s}
		srv.Router.ServeHTTP(w, httptest.NewRequest("GET", url, nil))
		out = append(out, vResp{Code: w.code, Body: append([]byte{}, w.buf.Bytes()...)})
	})
	return out
}

func c10Get(srv *Server, url string, chunked bool) vResp {
	if !chunked {
		return vGet(srv, url)
	}
	var r vResp
	vrt.Run(nil, vrt.RunOpts{WatchdogS: 60, StartNS: 1}, func(s *vrt.Sched) { r = vGet(srv, url) })
	return r
}

func c10Run(rep *vh.Report, srv *Server, a *vref.VAsset, asset, d, mode string, chunked bool, pkgs []c10Pkg, quick bool) {
	var parts []string
	switch mode {
	case "tltime":
		parts = append(parts, "segtimeline_1")
	case "tlnr":
		parts = append(parts, "segtimelinenr_1")
	}
	v := a.Ref
	segMS := a.LoopMS / int64(len(v.Segs))
	clearParts := append([]string{}, parts...)
	if chunked {
		half := segMS / 2
		ck := []string{"chunkdur_0.5", fmt.Sprintf("ato_%d.%03d", half/1000, half%1000)}
		parts = append(parts, ck...)
		clearParts = append(clearParts, ck...)
	}
	parts = append(parts, d)
	prefix, clearPrefix := vCfgPrefix(parts...), vCfgPrefix(clearParts...)
	tag := strings.SplitN(d, "-", 2)[0] + vIf(chunked, ":chunked", ":whole")
	viol := func(clause, sig, msg, url string) {
		rep.Violate(clause, sig+":"+tag, fmt.Sprintf("%s %s mode=%s chunked=%v: %s", asset, d, mode, chunked, msg), map[string]any{"url": url})
	}
	now := int64(1_000_000)
	// ---- MPD: default_KID and licence URL per adaptation set
	mpdName := vMPDNameFor(a, v.ID)
	mu := fmt.Sprintf("%s/%s/%s?nowMS=%d", prefix, asset, mpdName, now)
	mr := vGet(srv, mu)
	rep.AddExecs(1)
	if mr.Code != 200 {
		viol("C10.mpd", fmt.Sprintf("mpd-status-%d", mr.Code), vTrim(mr.Body), mu)
		return
	}
	m, err := vref.ParseMPD(mr.Body)
	if err != nil {
		viol("C10.mpd", "mpd-unparsable", err.Error(), mu)
		return
	}
	kidOf := map[string]string{} // rep id -> kid announced
	laurl := ""
	for _, as := range m.Periods[0].AS {
		kid := ""
		for _, cp := range as.ContentProt {
			if cp.SchemeIdUri == "urn:mpeg:dash:mp4protection:2011" {
				kid = c10Norm(cp.DefaultKID)
			}
			if cp.Laurl != "" {
				laurl = cp.Laurl
			}
			if cp.DashifLaurl != "" {
				laurl = cp.DashifLaurl
			}
		}
		for _, r := range as.Reps {
			kidOf[r.ID] = kid
		}
	}
	var ids []string
	for id, r := range a.Reps {
		if r.Kind == "video" || (r.Kind == "audio" && r.FrameDur > 0) {
			ids = append(ids, id)
		}
	}
	sort.Strings(ids)
	N := int64(len(v.Segs))
	for _, id := range ids {
		r := a.Reps[id]
		if _, listed := kidOf[id]; !listed {
			continue // not in this MPD
		}
		// (a) KID in the MPD == KID in the served init
		iu := fmt.Sprintf("%s/%s/%s?nowMS=%d", prefix, asset, r.InitURI, now)
		ir := vGet(srv, iu)
		rep.AddExecs(1)
		if ir.Code != 200 {
			viol("C10.a", fmt.Sprintf("init-status-%d:%s", ir.Code, r.Kind), vTrim(ir.Body), iu)
			continue
		}
		ii, err := vref.ParseInit(ir.Body)
		if err != nil {
			viol("C10.a", "init-unparsable:"+r.Kind, err.Error(), iu)
			continue
		}
		rep.Hit("C10.a")
		if ii.TencKID == "" || (ii.SampleEntry != "encv" && ii.SampleEntry != "enca") {
			viol("C10.a", "init-not-protected:"+r.Kind, fmt.Sprintf("sample entry %q, tenc KID %q", ii.SampleEntry, ii.TencKID), iu)
			continue
		}
		if kidOf[id] == "" || kidOf[id] != ii.TencKID {
			viol("C10.a", "kid-mismatch:"+r.Kind, fmt.Sprintf("MPD default_KID %q, init tenc default_KID %q", kidOf[id], ii.TencKID), iu)
		}
		wantScheme := "cbcs"
		if d == "eccp_cenc" || d == "drm_SAMEKEY-cenc" {
			wantScheme = "cenc"
		}
		if ii.Scheme != wantScheme {
			viol("C10.a", "scheme:"+r.Kind, fmt.Sprintf("init scheme %q, want %q", ii.Scheme, wantScheme), iu)
		}
		// (b) key for that kid
		var key []byte
		kidBytes, _ := hex.DecodeString(ii.TencKID)
		if strings.HasPrefix(d, "eccp_") {
			rep.Hit("C10.b")
			if laurl == "" {
				viol("C10.b", "no-laurl", "the MPD advertises no licence URL", mu)
				continue
			}
			path := laurl
			if k := strings.Index(laurl, "/livesim2/"); k >= 0 {
				path = laurl[k:]
			}
			body := fmt.Sprintf(`{"kids":["%s"],"type":"temporary"}`, base64.RawURLEncoding.EncodeToString(kidBytes))
			lr := vDo(srv, "POST", path, []byte(body))
			rep.AddExecs(1)
			var out struct {
				Keys []struct{ K, Kid string } `json:"keys"`
			}
			if lr.Code != 200 || json.Unmarshal(lr.Body, &out) != nil || len(out.Keys) != 1 {
				viol("C10.b", "licence-failed", fmt.Sprintf("POST %s -> %d %q", path, lr.Code, vTrim(lr.Body)), path)
				continue
			}
			gotKid, _ := base64.RawURLEncoding.DecodeString(out.Keys[0].Kid)
			key, _ = base64.RawURLEncoding.DecodeString(out.Keys[0].K)
			if !bytes.Equal(gotKid, kidBytes) || len(key) != 16 {
				viol("C10.b", "licence-kid", fmt.Sprintf("licence returned kid %x (asked %x), key of %d bytes", gotKid, kidBytes, len(key)), path)
				continue
			}
		} else {
			for _, p := range pkgs {
				if "drm_"+p.name == d {
					rep.Hit("C10.b")
					want := p.byType[r.Kind]
					if len(p.keys) == 1 {
						for k := range p.keys {
							want = k
						}
					}
					if want != ii.TencKID {
						viol("C10.b", "cpix-kid:"+r.Kind, fmt.Sprintf("init KID %s, the package's key for %s is %s", ii.TencKID, r.Kind, want), iu)
					}
					key = p.keys[ii.TencKID]
				}
			}
			if key == nil {
				viol("C10.b", "no-key-for-kid:"+r.Kind, fmt.Sprintf("package has no key for KID %s", ii.TencKID), iu)
				continue
			}
		}
		// (c) decrypt(served) == clear(served)
		initF, err := mp4.DecodeFile(bytes.NewReader(ir.Body))
		if err != nil || initF.Init == nil {
			viol("C10.c", "init-decode", fmt.Sprint(err), iu)
			continue
		}
		di, err := mp4.DecryptInit(initF.Init)
		if err != nil {
			viol("C10.c", "decrypt-init", err.Error(), iu)
			continue
		}
		var decInit bytes.Buffer
		_ = initF.Init.Encode(&decInit)
		clearInit, _ := vref.ParseInit(decInit.Bytes())
		ns := []int64{0, 1}
		if !quick {
			ns = nil
			for n := int64(0); n <= N+1; n++ {
				ns = append(ns, n)
			}
		} else {
			ns = append(ns, N-1, N, N+1)
		}
		base := int64(400)
		for _, dn := range ns {
			n := base*N + dn
			var name string
			var endMS int64
			if r.Kind == "audio" {
				aS := vref.AudioBoundary(v.LiveStart(n), v.TS, r.TS, r.FrameDur)
				endMS = vref.TicksToMSCeil(vref.AudioBoundary(v.LiveEnd(n), v.TS, r.TS, r.FrameDur), r.TS)
				if mode == "tltime" {
					name = vref.ExpandURL(strings.ReplaceAll(r.MediaTmpl, "$Number$", "$Time$"), r.ID, r.Bandwidth, 0, aS)
				} else {
					name = vref.ExpandURL(strings.ReplaceAll(r.MediaTmpl, "$Time$", "$Number$"), r.ID, r.Bandwidth, n, 0)
				}
			} else {
				endMS = vref.TicksToMSCeil(r.LiveEnd(n), r.TS)
				if mode == "tltime" {
					name = vref.ExpandURL(strings.ReplaceAll(r.MediaTmpl, "$Number$", "$Time$"), r.ID, r.Bandwidth, 0, r.LiveStart(n))
				} else {
					name = vref.ExpandURL(strings.ReplaceAll(r.MediaTmpl, "$Time$", "$Number$"), r.ID, r.Bandwidth, n, 0)
				}
			}
			t := endMS + 1
			eu := fmt.Sprintf("%s/%s/%s?nowMS=%d", prefix, asset, name, t)
			cu := fmt.Sprintf("%s/%s/%s?nowMS=%d", clearPrefix, asset, name, t)
			cr := c10Get(srv, cu, chunked)
			ers := []vResp{c10Get(srv, eu, chunked)}
			if chunked {
				// also at the advertised availability time, with every single client stall
				tAdv := vref.TicksToMSCeil(v.LiveEnd(n), v.TS) - segMS/2
				eu2 := fmt.Sprintf("%s/%s/%s?nowMS=%d", prefix, asset, name, tAdv)
				ers = append(ers, c10GetStalls(srv, eu2, tAdv)...)
			}
			rep.AddStates(int64(len(ers)))
			rep.AddTrans(int64(len(ers)))
			rep.AddExecs(int64(len(ers)) + 1)
			for _, er := range ers {
				if cr.Code != 200 && er.Code == cr.Code {
					// the configuration is refused with and without encryption alike (e.g. an
					// availabilityTimeOffset that the asset-level segment duration does not allow):
					// nothing about keys or ciphertext to compare
					rep.Note("not judged: %s answers %d with and without encryption", eu, cr.Code)
					continue
				}
				if strings.HasPrefix(d, "drm_NOIV") && er.Code >= 500 && cr.Code == 200 {
					// a cbcs key without explicitIV cannot be announced in the init segment: refusing the media is deliberate
					rep.Note("not judged: %s refused (%d): CPIX key without explicitIV", eu, er.Code)
					continue
				}
				if er.Code != 200 || cr.Code != 200 {
					viol("C10.c", fmt.Sprintf("segment-status-%d-%d:%s", er.Code, cr.Code, r.Kind), fmt.Sprintf("encrypted -> %d, clear -> %d", er.Code, cr.Code), eu)
					continue
				}
				ef, err := mp4.DecodeFile(bytes.NewReader(er.Body))
				if err != nil || len(ef.Segments) == 0 {
					viol("C10.c", "encrypted-decode:"+r.Kind, fmt.Sprint(err), eu)
					continue
				}
				rep.Hit("C10.c")
				failed := false
				for _, sgm := range ef.Segments {
					if err := mp4.DecryptSegment(sgm, di, key); err != nil {
						viol("C10.c", "decrypt-failed:"+r.Kind, fmt.Sprintf("n=%d: %v", n, err), eu)
						failed = true
						break
					}
				}
				if failed {
					continue
				}
				var dec []byte
				for _, sgm := range ef.Segments {
					sw := bits.NewFixedSliceWriter(int(sgm.Size()))
					if err := sgm.EncodeSW(sw); err != nil {
						viol("C10.c", "reencode:"+r.Kind, err.Error(), eu)
						failed = true
						break
					}
					dec = append(dec, sw.Bytes()...)
				}
				if failed {
					continue
				}
				ds, err1 := vref.ParseSegment(dec, clearInit.Trex)
				cs, err2 := vref.ParseSegment(cr.Body, r.Init.Trex)
				if err1 != nil || err2 != nil {
					viol("C10.c", "parse:"+r.Kind, fmt.Sprintf("%v %v", err1, err2), eu)
					continue
				}
				dsS, csS := ds.Samples(), cs.Samples()
				if ds.Start() != cs.Start() || len(dsS) != len(csS) || ds.Frags[0].Seq != cs.Frags[0].Seq {
					viol("C10.c", "timing-differs:"+r.Kind, fmt.Sprintf("n=%d: decrypted (tfdt=%d, %d samples, seq %d) clear (tfdt=%d, %d samples, seq %d)", n, ds.Start(), len(dsS), ds.Frags[0].Seq, cs.Start(), len(csS), cs.Frags[0].Seq), eu)
					continue
				}
				for k := range dsS {
					if dsS[k].Hash != csS[k].Hash || dsS[k].Dur != csS[k].Dur || dsS[k].Size != csS[k].Size {
						viol("C10.c", "payload-differs:"+r.Kind, fmt.Sprintf("n=%d sample %d: decrypted payload differs from the clear segment", n, k), eu)
						break
					}
				}
				// the ciphertext must differ from the clear text (something was encrypted)
				es, err := vref.ParseSegment(er.Body, r.Init.Trex)
				if err == nil {
					same := 0
					for k, s := range es.Samples() {
						if k < len(csS) && s.Hash == csS[k].Hash {
							same++
						}
					}
					if same == len(csS) && len(csS) > 0 {
						viol("C10.c", "not-encrypted:"+r.Kind, fmt.Sprintf("n=%d: served 'encrypted' samples equal the clear ones", n), eu)
					}
				}
			}
		}
	}
	rep.Sample(map[string]any{"asset": asset, "drm": d, "mode": mode, "chunked": chunked})
	rep.Outcome(fmt.Sprintf("%s|%s|%s|%v", asset, d, mode, chunked))
}

// c10PreEncrypted writes livesim2's own eccp_cenc output back as a VoD asset and requires DRM
// requests on it to be refused.
func c10PreEncrypted(t *testing.T, rep *vh.Report) {
	scratch := os.Getenv("VERIF_SCRATCH")
	if scratch == "" {
		return
	}
	// three assets: every track pre-encrypted; the audio track only (clear video); the video track only
	for _, va := range []struct {
		name string
		enc  map[string]bool
	}{{"preenc_2s", map[string]bool{"V300": true, "A48": true}}, {"preenc_audio_2s", map[string]bool{"A48": true}}, {"preenc_video_2s", map[string]bool{"V300": true}}} {
		c10PreEncryptedAsset(t, rep, filepath.Join(scratch, va.name+"_root"), va.name, va.enc)
	}
}

func c10PreEncryptedAsset(t *testing.T, rep *vh.Report, root, name string, enc map[string]bool) {
	dir := filepath.Join(root, name)
	src, err := vServer(vBundledRoot)
	if err != nil {
		t.Fatalf("server: %v", err)
	}
	a, _ := vAsset(vBundledRoot, "testpic_2s")
	for _, id := range []string{"V300", "A48"} {
		r := a.Reps[id]
		_ = os.MkdirAll(filepath.Join(dir, id), 0o755)
		mode := "eccp_cenc/"
		if !enc[id] {
			mode = ""
		}
		ir := vGet(src, "/livesim2/"+mode+"testpic_2s/"+r.InitURI+"?nowMS=100000")
		if ir.Code != 200 {
			t.Fatalf("cannot fetch encrypted init: %d", ir.Code)
		}
		_ = os.WriteFile(filepath.Join(dir, id, "init.mp4"), ir.Body, 0o644)
		for n := 0; n < 4; n++ {
			sr := vGet(src, fmt.Sprintf("/livesim2/%stestpic_2s/%s/%d.m4s?nowMS=%d", mode, id, n, (n+1)*2000+100))
			if sr.Code != 200 {
				t.Fatalf("cannot fetch encrypted segment: %d", sr.Code)
			}
			_ = os.WriteFile(filepath.Join(dir, id, fmt.Sprintf("%d.m4s", n+1)), sr.Body, 0o644)
		}
	}
	mpd, _ := os.ReadFile(filepath.Join(vBundledRoot, "testpic_2s", "Manifest.mpd"))
	_ = os.WriteFile(filepath.Join(dir, "Manifest.mpd"), mpd, 0o644)
	srv, err := vNewServer(root, "", false)
	if err != nil {
		rep.Note("pre-encrypted asset could not be loaded: %v", err)
		return
	}
	if dc, err := drm.ReadDrmConfig(c10DrmCfg); err == nil {
		srv.Cfg.DrmCfg = dc
	}
	as, ok := srv.assetMgr.assets[name]
	if !ok || as.refRep.PreEncrypted != enc["V300"] {
		rep.Violate("C10.d", "pre-encrypted-not-recognised:"+name, fmt.Sprintf("asset %s (pre-encrypted tracks %v): loaded=%v", name, enc, ok), map[string]any{"asset": name})
		return
	}
	all := enc["V300"] && enc["A48"]
	for _, d := range []string{"eccp_cenc", "eccp_cbcs", "drm_EZDRM-1-key-cbcs-test"} {
		for _, ep := range []string{"Manifest.mpd", "V300/init.mp4", "V300/40.m4s", "A48/init.mp4", "A48/40.m4s"} {
			if !all && !enc[strings.SplitN(ep, "/", 2)[0]] {
				continue // a clear track next to a pre-encrypted one, and the MPD of such an asset: not judged
			}
			u := fmt.Sprintf("/livesim2/%s/%s/%s?nowMS=100000", d, name, ep)
			r := vGet(srv, u)
			rep.AddExecs(1)
			rep.AddStates(1)
			rep.Hit("C10.d")
			clear := vGet(srv, fmt.Sprintf("/livesim2/%s/%s?nowMS=100000", name, ep))
			switch {
			case r.vCrashed():
				site, val := vPanicSite(srv.livesimHandlerFunc, "GET", u, nil)
				rep.Violate("C10.d", "panic:"+site, fmt.Sprintf("%s: %s", u, val), map[string]any{"url": u})
			case r.Code == 200 && !bytes.Equal(r.Body, clear.Body):
				rep.Violate("C10.d", "pre-encrypted-served-differently:"+strings.SplitN(ep, "/", 2)[0]+vIf(all, "", ":"+name), fmt.Sprintf("%s: 200 with a body that differs from the request without DRM (encrypted twice?)", u), map[string]any{"url": u})
			case r.Code == 200 && strings.HasSuffix(ep, ".mpd"):
				rep.Violate("C10.d", "pre-encrypted-mpd-not-refused", fmt.Sprintf("%s: DRM MPD for a pre-encrypted asset answered 200", u), map[string]any{"url": u})
			}
		}
	}
}
