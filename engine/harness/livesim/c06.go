package app

// C06 — splitting into periods preserves the timeline and the segment identities.
// E3: periods-per-hour 1..3600 (accept/reject + structure) and, for a set of period durations, a
// breakpoint walk around period boundaries / window edges; differential oracle: multi-period MPD
// versus the single-period MPD at the same instant, plus byte equality of the segments.

import (
	"bytes"
	"fmt"
	"sort"
	"strings"
	"testing"

	"github.com/Dash-Industry-Forum/livesim2/internal/vshim/vh"
	"github.com/Dash-Industry-Forum/livesim2/internal/vshim/vref"
)

const c06Continuity = "urn:mpeg:dash:period-continuity:2015"

func TestVerifC06(t *testing.T) {
	rep := vh.NewReport("C06")
	defer rep.Write()
	quick := vh.Quick()
	roots := []string{vBundledRoot}
	if g := vGenRoot(); g != "" {
		roots = append(roots, g)
		if x := vGenExtraRoot(); x != "" {
			roots = append(roots, x)
		}
	}
	if sh, _ := vh.Shard(); sh == 0 {
		if srv, err := vServer(vBundledRoot); err == nil {
			c06NonZeroStart(rep, srv)
			c06StartNumberOffset(rep, srv)
			c06AfterStop(rep, srv)
			c06WithAto(rep, srv)
		}
	}
	job := 0
	for _, root := range roots {
		for _, ap := range vAssetPaths(root) {
			if !vExtraWanted(root, ap, "x_thumbs_4s", "x_thumbs_1s_before_text") {
				continue
			}
			if vTimeOffsetAsset(ap) {
				continue
			}
			a, err := vAsset(root, ap)
			if err != nil || !a.LoopExact || a.Ref.Kind != "video" {
				continue
			}
			srv, err := vServer(root)
			if err != nil {
				t.Fatalf("server: %v", err)
			}
			if _, ok := srv.assetMgr.assets[ap]; !ok {
				continue
			}
			var names []string
			for n := range a.MPDs {
				names = append(names, n)
			}
			sort.Strings(names)
			for _, mpdName := range names {
				for _, mode := range []string{"number", "tltime", "tlnr"} {
					// every periods-per-hour value: accept / reject and structure at one instant
					job++
					if vh.Mine(job) && !rep.OutOfBudget() {
						step := 1
						if quick {
							step = 7
						}
						for p := 1; p <= 3600; p += step {
							c06Check(rep, srv, a, ap, mpdName, mode, p, 60, false, 7_200_500, false)
						}
						for _, p := range []int{1, 2, 3, 4, 5, 6, 8, 10, 12, 15, 20, 30, 60, 120, 450, 900, 1800, 3600} {
							c06Check(rep, srv, a, ap, mpdName, mode, p, 60, true, 7_200_500, false)
						}
					}
					// breakpoint walks
					for _, p := range []int{1, 2, 4, 30, 60, 120, 450, 1800} {
						for _, tsbd := range []int64{60, 10} {
							job++
							if !vh.Mine(job) {
								continue
							}
							if rep.OutOfBudget() {
								return
							}
							if quick && (p == 1 || p == 4 || p == 450) && tsbd == 10 {
								continue
							}
							c06Walk(rep, srv, a, ap, mpdName, mode, p, tsbd, quick)
						}
					}
				}
			}
		}
	}
}

// c06NonZeroStart: with availabilityStartTime != 0 the statement still holds: every segment the single-period MPD
// lists (all of them start at or after the start of the first period, which contains the window start) appears in
// exactly one period of the multi-period MPD, under the same media time.
func c06NonZeroStart(rep *vh.Report, srv *Server) {
	for _, mode := range []string{"tltime", "tlnr"} {
		for _, p := range []int{60, 120} {
			for _, start := range []int64{600, 1000, 3600} {
				for _, off := range []int64{90_500, 150_500} {
					t := start*1000 + off
					base := []string{"segtimeline_1"}
					if mode == "tlnr" {
						base = []string{"segtimelinenr_1"}
					}
					base = append(base, fmt.Sprintf("start_%d", start))
					mURL := fmt.Sprintf("%s/testpic_2s/Manifest.mpd?nowMS=%d", vCfgPrefix(append(append([]string{}, base...), fmt.Sprintf("periods_%d", p))...), t)
					sURL := fmt.Sprintf("%s/testpic_2s/Manifest.mpd?nowMS=%d", vCfgPrefix(base...), t)
					mr, sr := vGet(srv, mURL), vGet(srv, sURL)
					rep.AddExecs(2)
					rep.AddStates(1)
					rep.Hit("C06.b")
					if mr.Code != 200 || sr.Code != 200 {
						continue // refusing the combination is not judged here
					}
					mm, err1 := vref.ParseMPD(mr.Body)
					sm, err2 := vref.ParseMPD(sr.Body)
					if err1 != nil || err2 != nil {
						continue
					}
					ss, err1 := sm.TimelineSegs()
					ms, err2 := mm.TimelineSegs()
					if err1 != nil || err2 != nil {
						continue
					}
					type key struct {
						rep  string
						time uint64
					}
					n := map[key]int{}
					for _, x := range ms {
						n[key{x.RepID, x.Time}]++
					}
					// segments that start before the first period (the single-period MPD may list the one that contains the window start)
					firstMS := int64(-1)
					for _, x := range ms {
						if firstMS < 0 || x.PeriodStartMS < firstMS {
							firstMS = x.PeriodStartMS
						}
					}
					lost := 0
					for _, x := range ss {
						if int64(x.Time)*1000 < firstMS*int64(x.TS) {
							continue
						}
						if n[key{x.RepID, x.Time}] != 1 {
							lost++
						}
					}
					if firstMS > (t - start*1000 - 60_000) {
						// the first period must contain the start of the time-shift window (60 s by default)
						rep.Violate("C06.b", "nonzero-start:first-period-after-window-start:"+mode, fmt.Sprintf("start_%d periods_%d t=%d: the first period with segments starts at media time %d ms, the window starts at %d ms", start, p, t, firstMS, t-start*1000-60_000), map[string]any{"multi_url": mURL})
					}
					if lost > 0 {
						rep.Violate("C06.b", "nonzero-start:segments-not-in-one-period:"+mode, fmt.Sprintf("start_%d periods_%d t=%d: %d of the %d segments of the single-period MPD are not in exactly one period of the multi-period MPD (which lists %d)", start, p, t, lost, len(ss), len(ms)),
							map[string]any{"multi_url": mURL, "single_url": sURL})
					}
				}
			}
		}
	}
}

// c06StartNumberOffset: with snr_K in $Number$ mode the number of the first segment of a period is K plus the number
// of segment durations that fit before the period: the same segment has the same number as in single-period mode.
func c06StartNumberOffset(rep *vh.Report, srv *Server) {
	for _, snr := range []int64{0, 1, 5, 1000} {
		for _, p := range []int{60, 120} {
			for _, t := range []int64{1_001_000, 130_500} {
				u := fmt.Sprintf("/livesim2/snr_%d/periods_%d/testpic_2s/Manifest.mpd?nowMS=%d", snr, p, t)
				r := vGet(srv, u)
				rep.AddExecs(1)
				rep.AddStates(1)
				rep.Hit("C06.b")
				if r.Code != 200 {
					continue
				}
				mm, err := vref.ParseMPD(r.Body)
				if err != nil {
					continue
				}
				for _, per := range mm.Periods {
					for ai := range per.AS {
						as := &per.AS[ai]
						st := as.SegTemplate
						if st == nil || st.Duration == nil || st.StartNumber == nil || st.PTO == nil || as.ContentType == "image" {
							continue
						}
						if want := uint64(snr) + *st.PTO / *st.Duration; *st.StartNumber != want {
							rep.Violate("C06.b", "number-period-offsets:snr", fmt.Sprintf("%s: Period %q %s: startNumber=%d, presentationTimeOffset=%d duration=%d with snr_%d: the segment at the period start has number %d in single-period mode", u, per.ID, as.ContentType, *st.StartNumber, *st.PTO, *st.Duration, snr, want), map[string]any{"url": u})
						}
					}
				}
			}
		}
	}
}

// c06AfterStop: with a stop time the periods do not change their identity when the stop instant passes: every period
// of the MPD just before the stop is in the MPD after it, with the same id and start (the presentation has ended,
// nothing leaves it any more).
func c06AfterStop(rep *vh.Report, srv *Server) {
	for _, mode := range []string{"number", "tltime", "tlnr"} {
		for _, p := range []int{60, 120} {
			var base []string
			switch mode {
			case "tltime":
				base = append(base, "segtimeline_1")
			case "tlnr":
				base = append(base, "segtimelinenr_1")
			}
			base = append(base, "stop_1030", fmt.Sprintf("periods_%d", p))
			get := func(t int64) (*vref.MPD, string) {
				u := fmt.Sprintf("%s/testpic_2s/Manifest.mpd?nowMS=%d", vCfgPrefix(base...), t)
				r := vGet(srv, u)
				rep.AddExecs(1)
				if r.Code != 200 {
					return nil, u
				}
				m, err := vref.ParseMPD(r.Body)
				if err != nil {
					return nil, u
				}
				return m, u
			}
			before, _ := get(1_029_000)
			if before == nil {
				continue
			}
			for _, t := range []int64{1_030_001, 1_031_000, 1_045_000} {
				after, u := get(t)
				rep.AddStates(1)
				rep.Hit("C06.a")
				if after == nil {
					continue
				}
				have := map[string]string{}
				for _, per := range after.Periods {
					have[per.ID] = per.Start
				}
				for _, per := range before.Periods {
					if st, ok := have[per.ID]; !ok || st != per.Start {
						rep.Violate("C06.a", "period-identity-after-stop:"+mode, fmt.Sprintf("%s: Period %q (start %s) of the MPD at 1029 s is not in the MPD after the stop time 1030 s (periods there: %v)", u, per.ID, per.Start, have), map[string]any{"url": u})
						break
					}
				}
			}
		}
	}
}

// c06WithAto: an availabilityTimeOffset of more than a segment (allowed with SegmentTimeline) lists segments that start
// after "now": they too belong to exactly one period.
func c06WithAto(rep *vh.Report, srv *Server) {
	for _, mode := range []string{"segtimeline_1", "segtimelinenr_1"} {
		for _, ato := range []string{"ato_3", "ato_10", "ato_1"} {
			for _, t := range []int64{1_015_500, 1_017_500, 1_018_500, 1_019_500, 1_020_000, 1_021_000} {
				mURL := fmt.Sprintf("%s/testpic_2s/Manifest.mpd?nowMS=%d", vCfgPrefix(mode, ato, "periods_60"), t)
				sURL := fmt.Sprintf("%s/testpic_2s/Manifest.mpd?nowMS=%d", vCfgPrefix(mode, ato), t)
				mr, sr := vGet(srv, mURL), vGet(srv, sURL)
				rep.AddExecs(2)
				rep.AddStates(1)
				rep.Hit("C06.b")
				if mr.Code != 200 || sr.Code != 200 {
					continue
				}
				mm, err1 := vref.ParseMPD(mr.Body)
				sm, err2 := vref.ParseMPD(sr.Body)
				if err1 != nil || err2 != nil {
					continue
				}
				ss, err1 := sm.TimelineSegs()
				ms, err2 := mm.TimelineSegs()
				if err1 != nil || err2 != nil {
					continue
				}
				type key struct {
					rep  string
					time uint64
				}
				n := map[key]int{}
				firstMS := int64(-1)
				for _, x := range ms {
					n[key{x.RepID, x.Time}]++
					if firstMS < 0 || x.PeriodStartMS < firstMS {
						firstMS = x.PeriodStartMS
					}
				}
				for _, x := range ss {
					if int64(x.Time)*1000 < firstMS*int64(x.TS) {
						continue
					}
					if n[key{x.RepID, x.Time}] != 1 {
						rep.Violate("C06.b", fmt.Sprintf("segment-in-%d-periods:%s:with-ato", n[key{x.RepID, x.Time}], x.Kind), fmt.Sprintf("%s: rep %s segment t=%d of the single-period MPD appears %d times in the multi-period MPD", mURL, x.RepID, x.Time, n[key{x.RepID, x.Time}]), map[string]any{"multi_url": mURL, "single_url": sURL})
						break
					}
				}
			}
		}
	}
}

// c06MustReject: for constant video segment durations the period duration must be a whole multiple.
func c06MustReject(a *vref.VAsset, p int) (must bool, known bool) {
	D := uint64(3600 / p)
	v := a.Ref
	d := v.Segs[0].Dur()
	for _, sg := range v.Segs {
		if sg.Dur() != d {
			return false, false // variable durations: "the segment duration" is not defined by the statement
		}
	}
	return (D*v.TS)%d != 0, true
}

func c06Walk(rep *vh.Report, srv *Server, a *vref.VAsset, asset, mpdName, mode string, p int, tsbd int64, quick bool) {
	D := int64(3600/p) * 1000
	v := a.Ref
	segMS := a.LoopMS / int64(len(v.Segs))
	set := map[int64]bool{}
	add := func(t int64) {
		if t > 0 {
			set[t] = true
		}
	}
	bounds := []int64{D, 2 * D}
	if D <= 8000 {
		bounds = []int64{30 * D, 31 * D}
	}
	for _, B := range bounds {
		for _, off := range []int64{0, tsbd * 1000} {
			c := B + off
			add(c - 1)
			add(c)
			add(c + 1)
			n0 := v.LastEnded(c-2*segMS, 0)
			for n := n0; n <= n0+5; n++ {
				if n < 0 {
					continue
				}
				e := vref.TicksToMSCeil(v.LiveEnd(n), v.TS)
				add(e - 1)
				add(e)
				add(e + 1)
			}
		}
		add(B + a.LoopMS/2)
	}
	var ts []int64
	for t := range set {
		ts = append(ts, t)
	}
	sort.Slice(ts, func(i, j int) bool { return ts[i] < ts[j] })
	first := true
	for _, t := range ts {
		c06Check(rep, srv, a, asset, mpdName, mode, p, tsbd, false, t, true)
		rep.AddStates(1)
		if !first {
			rep.AddTrans(1)
		}
		first = false
	}
	rep.Sample(map[string]any{"asset": asset, "mpd": mpdName, "mode": mode, "periods_per_hour": p, "tsbd": tsbd, "instants": len(ts)})
	rep.Outcome(fmt.Sprintf("%s/%s/%s/%d", asset, mpdName, mode, p))
}

func c06Check(rep *vh.Report, srv *Server, a *vref.VAsset, asset, mpdName, mode string, p int, tsbd int64, continuous bool, t int64, fetchSegs bool) {
	var base []string
	switch mode {
	case "tltime":
		base = append(base, "segtimeline_1")
	case "tlnr":
		base = append(base, "segtimelinenr_1")
	}
	base = append(base, fmt.Sprintf("tsbd_%d", tsbd))
	multi := append(append([]string{}, base...), fmt.Sprintf("periods_%d", p))
	if continuous {
		multi = append(multi, "continuous_1")
	}
	mURL := fmt.Sprintf("%s/%s/%s?nowMS=%d", vCfgPrefix(multi...), asset, mpdName, t)
	sURL := fmt.Sprintf("%s/%s/%s?nowMS=%d", vCfgPrefix(base...), asset, mpdName, t)
	viol := func(clause, sig, msg string) {
		rep.Violate(clause, sig+":"+mode, fmt.Sprintf("%s/%s periods_%d tsbd_%d t=%d: %s", asset, mpdName, p, tsbd, t, msg), map[string]any{"multi_url": mURL, "single_url": sURL})
	}
	mr := vGet(srv, mURL)
	rep.AddExecs(1)
	if !fetchSegs {
		rep.AddStates(1)
		rep.AddTrans(1)
	}
	D := int64(3600 / p)
	must, known := c06MustReject(a, p)
	if mr.vCrashed() {
		site, val := vPanicSite(srv.livesimHandlerFunc, "GET", mURL, nil)
		viol("C06.mpd", "panic:"+site, "handler crashed: "+val)
		return
	}
	if known {
		rep.Hit("C06.e")
		if must && mr.Code == 200 {
			viol("C06.e", "unaligned-accepted", fmt.Sprintf("period duration %d s is not a multiple of the segment duration %d/%d s but the MPD is served", D, a.Ref.Segs[0].Dur(), a.Ref.TS))
			return
		}
	}
	if mr.Code != 200 {
		rep.Hit("C06.rejected")
		if len(mr.Body) == 0 {
			viol("C06.e", "rejected-without-message", fmt.Sprintf("status %d with empty body", mr.Code))
		}
		return
	}
	rep.Hit("C06.accepted")
	mm, err := vref.ParseMPD(mr.Body)
	if err != nil {
		viol("C06.mpd", "unparsable", err.Error())
		return
	}
	sr := vGet(srv, sURL)
	rep.AddExecs(1)
	sm, err := vref.ParseMPD(sr.Body)
	if sr.Code != 200 || err != nil {
		viol("C06.mpd", "single-period-mpd-failed", fmt.Sprintf("status %d", sr.Code))
		return
	}
	// (a) periods tile wall-clock time
	rep.Hit("C06.a")
	if len(mm.Periods) == 0 {
		viol("C06.a", "no-periods", "no Period in the MPD")
		return
	}
	var firstK int64 = -1
	for i, per := range mm.Periods {
		st, err := vref.DurMS(per.Start)
		if err != nil || st%(D*1000) != 0 {
			viol("C06.a", "period-start", fmt.Sprintf("Period %q start=%q is not a multiple of the period duration %d s", per.ID, per.Start, D))
			return
		}
		k := st / (D * 1000)
		if i == 0 {
			firstK = k
		} else if k != firstK+int64(i) {
			viol("C06.a", "period-sequence", fmt.Sprintf("Period %d is number %d, expected %d", i, k, firstK+int64(i)))
		}
		if per.ID != fmt.Sprintf("P%d", k) {
			viol("C06.a", "period-id", fmt.Sprintf("Period starting at %d s has id %q, want P%d", st/1000, per.ID, k))
		}
		if st > t {
			viol("C06.a", "period-in-future", fmt.Sprintf("Period %q starts at %d ms > now", per.ID, st))
		}
		// (d) continuity signalling
		rep.Hit("C06.d")
		for _, as := range per.AS {
			has := false
			for _, sp := range as.Supplemental {
				if sp.SchemeIdUri == c06Continuity {
					has = true
				}
			}
			if has != continuous {
				viol("C06.d", fmt.Sprintf("continuity:requested=%v:present=%v", continuous, has), fmt.Sprintf("Period %q AdaptationSet %q", per.ID, as.ID))
				break
			}
		}
	}
	lastK := firstK + int64(len(mm.Periods)) - 1
	if t/(D*1000) != lastK {
		viol("C06.a", "last-period", fmt.Sprintf("last period is number %d but now lies in period %d", lastK, t/(D*1000)))
	}
	firstStartMS := firstK * D * 1000
	if mode == "number" {
		// implicit: startNumber and presentationTimeOffset of every period follow from its start
		rep.Hit("C06.b")
		for _, per := range mm.Periods {
			st, _ := vref.DurMS(per.Start)
			for _, as := range per.AS {
				for ri := range as.Reps {
					tm := as.Template(&as.Reps[ri])
					if tm == nil || tm.Duration == nil {
						continue
					}
					ts, d := tm.TS(), *tm.Duration
					wantPTO := uint64(st) * ts / 1000
					var pto, sn uint64
					if tm.PTO != nil {
						pto = *tm.PTO
					}
					if tm.StartNumber != nil {
						sn = *tm.StartNumber
					}
					if wantPTO%d != 0 {
						// this track's own segment duration does not divide the period start (e.g. 4 s thumbnails,
						// 30 s periods): no start number can line up; not judged
						continue
					}
					if pto != wantPTO || sn*d != wantPTO {
						viol("C06.b", "number-period-offsets", fmt.Sprintf("Period %q rep %s: presentationTimeOffset=%d startNumber=%d duration=%d timescale=%d, period starts at %d ms", per.ID, as.Reps[ri].ID, pto, sn, d, ts, st))
					}
				}
			}
		}
		return
	}
	// (b) differential on the SegmentTimeline
	ss, err1 := sm.TimelineSegs()
	ms, err2 := mm.TimelineSegs()
	if err1 != nil || err2 != nil {
		viol("C06.b", "timeline-unreadable", fmt.Sprintf("%v %v", err1, err2))
		return
	}
	type key struct {
		rep  string
		time uint64
	}
	inMulti := map[key][]vref.DeclSeg{}
	for _, s := range ms {
		inMulti[key{s.RepID, s.Time}] = append(inMulti[key{s.RepID, s.Time}], s)
	}
	inSingle := map[key]vref.DeclSeg{}
	rep.Hit("C06.b")
	for _, s := range ss {
		inSingle[key{s.RepID, s.Time}] = s
		startMS := vref.TicksToMSFloor(s.Time, s.TS)
		if int64(s.Time)*1000 < firstStartMS*int64(s.TS) {
			continue
		}
		got := inMulti[key{s.RepID, s.Time}]
		if len(got) != 1 {
			viol("C06.b", fmt.Sprintf("segment-in-%d-periods:%s", len(got), s.Kind), fmt.Sprintf("rep %s segment t=%d (%d ms) nr=%d of the single-period MPD appears %d times in the multi-period MPD", s.RepID, s.Time, startMS, s.Nr, len(got)))
			continue
		}
		g := got[0]
		wantK := int64(s.Time) / (D * int64(s.TS))
		if g.PeriodStartMS != wantK*D*1000 {
			viol("C06.b", "segment-in-wrong-period:"+s.Kind, fmt.Sprintf("rep %s segment t=%d is in period starting %d ms, its start lies in period %d", s.RepID, s.Time, g.PeriodStartMS, wantK))
		}
		if g.Dur != s.Dur || (s.HasNr && g.Nr != s.Nr) || g.PTO != uint64(g.PeriodStartMS)*g.TS/1000 {
			viol("C06.b", "segment-identity:"+s.Kind, fmt.Sprintf("rep %s segment t=%d: single (d=%d nr=%d) multi (d=%d nr=%d pto=%d periodStart=%d ms)", s.RepID, s.Time, s.Dur, s.Nr, g.Dur, g.Nr, g.PTO, g.PeriodStartMS))
		}
		if g.URL != s.URL {
			viol("C06.c", "url-differs:"+s.Kind, fmt.Sprintf("rep %s segment t=%d: URL %q in the period, %q in single-period mode", s.RepID, s.Time, g.URL, s.URL))
		}
	}
	for k, l := range inMulti {
		if _, ok := inSingle[k]; !ok {
			viol("C06.b", "invented-segment:"+l[0].Kind, fmt.Sprintf("rep %s segment t=%d is listed in period %q but not in the single-period MPD", k.rep, k.time, l[0].PeriodID))
			break
		}
	}
	// (c) bytes through the period-relative URL (first and last segment of every period and representation)
	if fetchSegs {
		type pk struct {
			p   int
			rep string
		}
		firstLast := map[pk][2]vref.DeclSeg{}
		for _, s := range ms {
			k := pk{s.Period, s.RepID}
			fl, ok := firstLast[k]
			if !ok {
				fl[0] = s
			}
			fl[1] = s
			firstLast[k] = fl
		}
		for _, fl := range firstLast {
			for _, s := range fl[:] {
				u1 := fmt.Sprintf("%s/%s/%s?nowMS=%d", vCfgPrefix(multi...), asset, s.URL, t)
				u2 := fmt.Sprintf("%s/%s/%s?nowMS=%d", vCfgPrefix(base...), asset, s.URL, t)
				r1, r2 := vGet(srv, u1), vGet(srv, u2)
				rep.AddExecs(2)
				rep.Hit("C06.c")
				if r1.Code != 200 || r2.Code != 200 || !bytes.Equal(r1.Body, r2.Body) {
					viol("C06.c", "bytes-differ:"+s.Kind, fmt.Sprintf("%s -> %d (%d bytes), %s -> %d (%d bytes)", u1, r1.Code, len(r1.Body), u2, r2.Code, len(r2.Body)))
				}
			}
		}
	}
	_ = strings.TrimSpace
}
