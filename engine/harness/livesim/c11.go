package app

// C11 (handler level) — applying a served MPD patch to the old MPD yields the new MPD.
// E3: patch_T x {Timeline-Time, Timeline-Number} x {one period, periods_60} x assets: for all pairs
// t1 < t2 of breakpoint instants inside TTL + 2 segments; oracle = independent RFC 5261 applier.

import (
	"fmt"
	"net/url"
	"sort"
	"strconv"
	"strings"
	"testing"

	"github.com/Dash-Industry-Forum/livesim2/internal/vshim/vh"
	"github.com/Dash-Industry-Forum/livesim2/internal/vshim/vref"
)

func TestVerifC11(t *testing.T) {
	rep := vh.NewReport("C11")
	defer rep.Write()
	quick := vh.Quick()
	type sel struct{ root, path string }
	sels := []sel{{vBundledRoot, "testpic_2s"}, {vBundledRoot, "testpic_alt_seg_dur_stl"}}
	if g := vGenRoot(); g != "" {
		sels = append(sels, sel{g, "g_1001"}, sel{g, "g_3x1500ms"})
	}
	if !quick {
		sels = append(sels, sel{vBundledRoot, "testpic_6s"}, sel{vBundledRoot, "WAVE/vectors/cfhd_sets/14.985_29.97_59.94/t1/2022-10-17"}, sel{vBundledRoot, "testpic_8s"})
	}
	// every MPD of an asset that advertises a PatchLocation must be patchable: the other bundled MPDs of testpic_2s
	// (thumbnails, subtitles: AdaptationSets without ids in the VoD MPD)
	if sh, _ := vh.Shard(); sh == 0 {
		if a, err := vAsset(vBundledRoot, "testpic_2s"); err == nil {
			if srv, err := vServer(vBundledRoot); err == nil {
				for _, m := range []string{"Manifest_thumbs.mpd", "Manifest_imsc1.mpd"} {
					if _, ok := a.MPDs[m]; !ok {
						continue
					}
					for _, mode := range []string{"tltime", "tlnr"} {
						c11MPD = m
						c11Run(rep, srv, a, "testpic_2s", 10, mode, 0, 60, 0, true, false, 0)
						c11MPD = ""
					}
				}
				// the server's clock shifted by a whole number of segments: the same walk, 8 s later / earlier
				for _, off := range []string{"timeoffset_8", "timeoffset_-8"} {
					c11Extra = off
					c11Run(rep, srv, a, "testpic_2s", 10, "tltime", 0, 60, 0, true, false, 0)
					c11Extra = ""
				}
			}
		}
	}
	job := 0
	for _, s := range sels {
		a, err := vAsset(s.root, s.path)
		if err != nil || !a.LoopExact {
			continue
		}
		srv, err := vServer(s.root)
		if err != nil {
			t.Fatalf("server: %v", err)
		}
		if _, ok := srv.assetMgr.assets[s.path]; !ok {
			continue
		}
		for _, ttl := range []int{10, 60} {
			for _, mode := range []string{"tltime", "tlnr", "number"} {
				for _, periods := range []int{0, 60} {
					for _, tsbd := range []int64{60, 7} {
						for _, start := range []int64{0, 1_700_000_040} {
							job++
							if !vh.Mine(job) {
								continue
							}
							if periods > 0 && (start != 0 || !c05PeriodAligned(a, periods)) {
								continue
							}
							if quick && ttl == 60 && tsbd == 7 {
								continue
							}
							if rep.OutOfBudget() {
								return
							}
							c11Run(rep, srv, a, s.path, ttl, mode, periods, tsbd, start, quick, false, 0)
							if periods == 0 && start == 0 && tsbd == 60 && mode != "number" {
								// a stop time inside the walked interval: the last patch of a session crosses it
								c11Run(rep, srv, a, s.path, ttl, mode, periods, tsbd, start, quick, true, 0)
								// an availabilityTimeOffset: the MPD changes ato before every segment end
								for _, ato := range []int64{1000, 500} {
									if ato < a.LoopMS/int64(len(a.Ref.Segs)) && (!quick || ttl == 10) {
										c11Run(rep, srv, a, s.path, ttl, mode, periods, tsbd, start, quick, false, ato)
									}
								}
							}
						}
					}
				}
			}
		}
	}
}

// c11Extra, if set, is a further configuration part of the walked URLs (a clock offset: the same MPDs, shifted)
var c11Extra string

// c11MPD, if set, is the MPD of the asset that c11Run walks (default: the first one that lists the reference track)
var c11MPD string

func c11Run(rep *vh.Report, srv *Server, a *vref.VAsset, asset string, ttl int, mode string, periods int, tsbd, start int64, quick bool, withStop bool, atoMS int64) {
	v := a.Ref
	var parts []string
	switch mode {
	case "tltime":
		parts = append(parts, "segtimeline_1")
	case "tlnr":
		parts = append(parts, "segtimelinenr_1")
	} // "number": plain $Number$ SegmentTemplate
	parts = append(parts, fmt.Sprintf("patch_%d", ttl), fmt.Sprintf("tsbd_%d", tsbd))
	if start > 0 {
		parts = append(parts, fmt.Sprintf("start_%d", start))
	}
	if periods > 0 {
		parts = append(parts, fmt.Sprintf("periods_%d", periods))
	}
	minSegMS := int64(1 << 40)
	for _, sg := range v.Segs {
		if d := int64(sg.Dur() * 1000 / v.TS); d < minSegMS && d > 0 {
			minSegMS = d
		}
	}
	mpdName := vMPDNameFor(a, v.ID)
	if c11MPD != "" {
		mpdName = c11MPD
	}
	ast := start * 1000
	segMS := a.LoopMS / int64(len(v.Segs))
	var stopMS int64
	if withStop {
		stopMS = (ast + 50_000 + int64(ttl)*500 + segMS/2) / 1000 * 1000
		parts = append(parts, fmt.Sprintf("stop_%d", stopMS/1000))
	}
	if atoMS > 0 {
		parts = append(parts, fmt.Sprintf("ato_%d.%03d", atoMS/1000, atoMS%1000))
	}
	if c11Extra != "" {
		parts = append(parts, c11Extra)
	}
	prefix := vCfgPrefix(parts...)
	// instants: every availability instant (+-1 ms) from a base far enough for a full window, over TTL + 2 segments
	base := ast + 50_000
	if periods > 0 {
		base = ast + 100_000 // crosses the period boundary at 120 s
	}
	span := int64(ttl)*1000 + 2*segMS + 3000
	n0 := v.LastEnded(base-ast, 0)
	set := map[int64]bool{}
	for n := n0; ; n++ {
		e := ast + vref.TicksToMSCeil(v.LiveEnd(n), v.TS)
		if e > base+span {
			break
		}
		set[e-1], set[e], set[e+1] = true, true, true
		set[e+tsbd*1000%segMS] = true
		if atoMS > 0 {
			set[e-atoMS-1], set[e-atoMS], set[e-atoMS+1], set[e-atoMS/2] = true, true, true, true
		}
	}
	if stopMS > 0 {
		set[stopMS-1], set[stopMS], set[stopMS+1], set[stopMS+700] = true, true, true, true
	}
	var ts []int64
	for t := range set {
		if t >= base {
			ts = append(ts, t)
		}
	}
	sort.Slice(ts, func(i, j int) bool { return ts[i] < ts[j] })
	if quick && len(ts) > 40 {
		var red []int64
		for i, t := range ts {
			if i < 14 || i%3 == 0 {
				red = append(red, t)
			}
		}
		ts = red
	}
	type mpdT struct {
		body []byte
		doc  *vref.XNode
		pub  string
		loc  string
		ttl  string
	}
	mpds := map[int64]*mpdT{}
	get := func(t int64) *mpdT {
		if m, ok := mpds[t]; ok {
			return m
		}
		r := vGet(srv, fmt.Sprintf("%s/%s/%s?nowMS=%d", prefix, asset, mpdName, t))
		rep.AddExecs(1)
		if r.Code != 200 {
			mpds[t] = nil
			return nil
		}
		doc, err := vref.ParseXML(r.Body)
		if err != nil {
			mpds[t] = nil
			return nil
		}
		m := &mpdT{body: r.Body, doc: doc}
		m.pub, _ = doc.Attr("publishTime")
		for _, c := range doc.Children {
			if c.Name == "PatchLocation" {
				m.loc = strings.TrimSpace(c.Text)
				m.ttl, _ = c.Attr("ttl")
			}
		}
		mpds[t] = m
		return m
	}
	tag := mode + vIf(periods > 0, ":periods", "") + vIf(withStop, ":stop", "") + vIf(atoMS > 0, ":ato", "")
	for i, t1 := range ts {
		if stopMS > 0 && t1 >= stopMS {
			break // after the stop time the MPD is static and offers no patch
		}
		m1 := get(t1)
		if m1 == nil {
			rep.Violate("C11.mpd", "mpd-failed:"+tag, fmt.Sprintf("%s %s t=%d: MPD not served", asset, prefix, t1), nil)
			return
		}
		rep.Hit("C11.loc")
		if m1.loc == "" || m1.ttl != fmt.Sprint(ttl) {
			rep.Violate("C11.loc", "no-patch-location:"+tag, fmt.Sprintf("%s %s t=%d: PatchLocation %q ttl %q", asset, prefix, t1, m1.loc, m1.ttl), nil)
			return
		}
		// is MPD(t1) the document its publishTime identifies? (otherwise the known C05 finding applies:
		// segments have left the time-shift window, or a Period has come or gone, without a new publishTime)
		pubMS, err := vref.DateMS(m1.pub)
		baseOK := err == nil
		baseExplained := true
		if baseOK {
			mb := get(pubMS + 1)
			baseOK = mb != nil && mb.doc.Canon() == m1.doc.Canon()
			if !baseOK && mb != nil && periods == 0 && !withStop {
				baseExplained = c11WindowStartOnly(mb.doc, m1.doc, int((t1-pubMS)/minSegMS)+1)
			}
		}
		for _, t2 := range ts[i:] {
			if t2-t1 > int64(ttl)*1000+2*segMS {
				break
			}
			m2 := get(t2)
			if m2 == nil {
				continue
			}
			pu := m1.loc
			if k := strings.Index(pu, "/patch/"); k > 0 {
				pu = pu[k:]
			}
			purl := fmt.Sprintf("%s&nowMS=%d", pu, t2)
			pr := vGet(srv, purl)
			rep.AddStates(1)
			rep.AddTrans(1)
			rep.AddExecs(1)
			in := map[string]any{"mpd_url_t1": fmt.Sprintf("%s/%s/%s?nowMS=%d", prefix, asset, mpdName, t1), "patch_url": purl, "t2": t2}
			viol := func(clause, sig, msg string) {
				if !baseOK && baseExplained {
					sig = "stale-base:" + sig // MPD(t1) differs from the MPD at its own publishTime: consequence of the C05 finding
				} else if !baseOK {
					sig = "base-differs-beyond-window-start:" + sig // ... but by more than segments leaving the window can explain
				}
				rep.Violate(clause, sig+":"+tag, fmt.Sprintf("%s %s t1=%d t2=%d: %s", asset, prefix, t1, t2, msg), in)
			}
			same := m1.doc.Canon() == m2.doc.Canon()
			pub2MS, _ := vref.DateMS(m2.pub)
			switch {
			case pr.vCrashed():
				site, val := vPanicSite(srv.patchHandlerFunc, "GET", purl, nil)
				viol("C11.apply", "panic:"+site, val)
			case m1.pub == m2.pub:
				// nothing changed according to publishTime: 425
				rep.Hit("C11.same")
				if pr.Code != 425 {
					viol("C11.same", fmt.Sprintf("unchanged-status-%d", pr.Code), fmt.Sprintf("same publishTime %s but patch request answered %d", m1.pub, pr.Code))
				} else if !same {
					if periods == 0 && !withStop && !c11WindowStartOnly(m1.doc, m2.doc, int((t2-t1)/minSegMS)+1) {
						viol("C11.same", "425-although-changed:beyond-window-start", "MPD content changed (same publishTime) by more than segments leaving the time-shift window, and the patch request answered 425: "+c11Diff(m1.doc.Canon(), m2.doc.Canon()))
					} else {
						viol("C11.same", "425-although-changed", "MPD content changed (same publishTime) and the patch request answered 425")
					}
				}
			case pub2MS-pubMS > int64(ttl)*1000+int64(segMS)+11000:
				rep.Hit("C11.gone")
				if pr.Code != 410 {
					viol("C11.gone", fmt.Sprintf("beyond-ttl-status-%d", pr.Code), fmt.Sprintf("publishTime difference %d ms beyond ttl %d s answered %d", pub2MS-pubMS, ttl, pr.Code))
				}
			case pub2MS-pubMS <= int64(ttl)*1000:
				rep.Hit("C11.apply")
				if pr.Code != 200 {
					viol("C11.apply", fmt.Sprintf("patch-status-%d", pr.Code), fmt.Sprintf("within ttl but patch request answered %d %q", pr.Code, vTrim(pr.Body)))
					continue
				}
				pd, err := vref.ParseXML(pr.Body)
				if err != nil || pd.Name != "Patch" {
					viol("C11.apply", "patch-unparsable", fmt.Sprint(err))
					continue
				}
				if opt, _ := pd.Attr("originalPublishTime"); opt != m1.pub {
					viol("C11.apply", "originalPublishTime", fmt.Sprintf("originalPublishTime %q, MPD(t1) publishTime %q", opt, m1.pub))
				}
				res, err := vref.ApplyPatch(m1.doc, pd)
				if err != nil {
					viol("C11.apply", "patch-not-applicable", err.Error())
					continue
				}
				if got, want := res.Canon(), m2.doc.Canon(); got != want {
					viol("C11.apply", "patched-differs", "apply(patch, MPD(t1)) != MPD(t2): "+c11Diff(got, want))
				}
			default:
				// between ttl and ttl + margin: 200 or 410 are both acceptable
				if pr.Code != 200 && pr.Code != 410 {
					viol("C11.gone", fmt.Sprintf("margin-status-%d", pr.Code), fmt.Sprintf("answered %d", pr.Code))
				}
			}
		}
	}
	rep.Sample(map[string]any{"asset": asset, "config": prefix, "instants": len(ts)})
	rep.Outcome(fmt.Sprintf("%s|%s", asset, prefix))
	_ = url.QueryEscape
}

func c11Diff(a, b string) string {
	la, lb := strings.Split(a, "\n"), strings.Split(b, "\n")
	for i := 0; i < len(la) && i < len(lb); i++ {
		if la[i] != lb[i] {
			return fmt.Sprintf("line %d: %q vs %q", i+1, strings.TrimSpace(la[i]), strings.TrimSpace(lb[i]))
		}
	}
	return fmt.Sprintf("%d vs %d lines", len(la), len(lb))
}

// c11WindowStartOnly reports whether two MPDs differ in nothing but segments that have left the start of the
// time-shift window: every SegmentTimeline of one is a suffix of the other's (at most maxDrop entries shorter),
// startNumber follows, everything else is equal. This is the only way the known publishTime finding changes a
// single-period MPD without changing publishTime.
func c11WindowStartOnly(x, y *vref.XNode, maxDrop int) bool {
	type seg struct{ t, d uint64 }
	expand := func(tl *vref.XNode) []seg {
		var out []seg
		var t uint64
		for _, c := range tl.Children {
			if c.Name != "S" {
				continue
			}
			if v, ok := c.Attr("t"); ok {
				t, _ = strconv.ParseUint(v, 10, 64)
			}
			dv, _ := c.Attr("d")
			d, _ := strconv.ParseUint(dv, 10, 64)
			r := 0
			if v, ok := c.Attr("r"); ok {
				r, _ = strconv.Atoi(v)
			}
			for k := 0; k <= r; k++ {
				out = append(out, seg{t, d})
				t += d
			}
		}
		return out
	}
	cx, cy := x.Clone(), y.Clone()
	var tx, ty []*vref.XNode
	strip := func(dst *[]*vref.XNode) func(n, parent *vref.XNode, idx int) {
		return func(n, parent *vref.XNode, idx int) {
			if n.Name == "SegmentTimeline" {
				*dst = append(*dst, n)
				if parent != nil {
					var at []vref.XAttr
					for _, a := range parent.Attrs {
						if a.Name != "startNumber" {
							at = append(at, a)
						}
					}
					parent.Attrs = at
				}
			}
		}
	}
	cx.Walk(strip(&tx))
	cy.Walk(strip(&ty))
	if len(tx) != len(ty) {
		return false
	}
	for i := range tx {
		lx, ly := expand(tx[i]), expand(ty[i])
		short, long := lx, ly
		if len(short) > len(long) {
			short, long = long, short
		}
		if len(long)-len(short) > maxDrop {
			return false
		}
		off := len(long) - len(short)
		for k := range short {
			if long[off+k] != short[k] {
				return false
			}
		}
		tx[i].Children, ty[i].Children = nil, nil
	}
	return cx.Canon() == cy.Canon()
}
