package app

// C14 — fault-injection parameters hit exactly the scheduled requests.
// (1) status-code patterns: (cycle, rsq, code, rep filter) x every segment over 2*lcm(cycle, loop)
//     x start x snr x {Number, Time} x {video, audio}; reference = "k-th segment starting in its cycle".
// (2) traffic patterns: every pattern of <= 3 intervals over {u,d,s,h} x {1,2,3} s, every second of
//     two cycles, on a virtual clock (vrt) so that slow / hang are observed exactly.

import (
	"fmt"
	"sort"
	"strings"
	"testing"

	"github.com/Dash-Industry-Forum/livesim2/internal/vshim/vh"
	"github.com/Dash-Industry-Forum/livesim2/internal/vshim/vref"
	"github.com/Dash-Industry-Forum/livesim2/internal/vshim/vrt"
)

type c14Pat struct {
	cycle, rsq, code int
	rep              string // "" = all
}

func (p c14Pat) String() string {
	s := fmt.Sprintf("{cycle:%d,rsq:%d,code:%d", p.cycle, p.rsq, p.code)
	if p.rep != "" {
		s += ",rep:" + p.rep
	}
	return s + "}"
}

func c14Gcd(a, b int64) int64 {
	for b != 0 {
		a, b = b, a%b
	}
	return a
}

// c14Expected: the code the reference prescribes for segment index n of the timing representation tr
// (video, or the reference video for audio) when requested for representation id.
func c14Expected(pats []c14Pat, tr *vref.VRep, n int64, repID string, altStartTicks uint64, altTS uint64) (codes map[int]bool) {
	codes = map[int]bool{}
	eval := func(startOf func(m int64) (uint64, uint64)) int {
		for _, p := range pats {
			if p.rep != "" && !strings.Contains(repID, p.rep) {
				continue
			}
			s, ts := startOf(n)
			k := s / (uint64(p.cycle) * ts)
			// first segment of cycle k: walk back while the previous one starts in the same cycle
			m := n
			for m > 0 {
				ps, _ := startOf(m - 1)
				if ps/(uint64(p.cycle)*ts) != k {
					break
				}
				m--
			}
			if int(n-m) == p.rsq {
				return p.code
			}
		}
		return 200
	}
	codes[eval(func(m int64) (uint64, uint64) { return tr.LiveStart(m), tr.TS })] = true
	return codes
}

func TestVerifC14(t *testing.T) {
	rep := vh.NewReport("C14")
	defer rep.Write()
	quick := vh.Quick()
	c14Status(t, rep, quick)
	c14Traffic(t, rep, quick)
}

func c14Status(t *testing.T, rep *vh.Report, quick bool) {
	type assetSel struct{ root, path string }
	// bbb_hevc_ac3_8s: representation ids "1"/"2" that do not occur in the media file names (video_$Number$.m4s)
	sels := []assetSel{{vBundledRoot, "testpic_2s"}, {vBundledRoot, "testpic_alt_seg_dur_stl"}, {vBundledRoot, "bbb_hevc_ac3_8s"}}
	if g := vGenRoot(); g != "" {
		sels = append(sels, assetSel{g, "g_3x1500ms"}, assetSel{g, "g_1001"})
	}
	if !quick {
		sels = append(sels, assetSel{vBundledRoot, "testpic_6s"})
	}
	cycles := []int{1, 2, 3, 4, 5, 6, 7, 8, 9, 10, 11, 12, 13, 30, 31, 60, 120} // 120: longer than the time-shift window
	codesAll := []int{404, 410, 503, 599}
	job := 0
	for _, sel := range sels {
		a, err := vAsset(sel.root, sel.path)
		if err != nil || !a.LoopExact {
			continue
		}
		srv, err := vServer(sel.root)
		if err != nil {
			t.Fatalf("server: %v", err)
		}
		if _, ok := srv.assetMgr.assets[sel.path]; !ok {
			continue
		}
		v := a.Ref
		var au *vref.VRep
		var ids []string
		for id := range a.Reps {
			ids = append(ids, id)
		}
		sort.Strings(ids)
		for _, id := range ids {
			if a.Reps[id].Kind == "audio" && a.Reps[id].FrameDur > 0 && au == nil {
				au = a.Reps[id]
			}
		}
		minSegS := int64(1 << 30)
		for _, sg := range v.Segs {
			if d := int64(sg.Dur() / v.TS); d < minSegS {
				minSegS = d
			}
		}
		if minSegS < 1 {
			minSegS = 1
		}
		for ci, cycle := range cycles {
			maxRsq := int(int64(cycle)/minSegS) + 2
			for rsq := 0; rsq <= maxRsq; rsq++ {
				for cdi, code := range codesAll {
					if quick && (ci+rsq+cdi)%8 != 0 {
						continue
					}
					var patSets [][]c14Pat
					patSets = append(patSets, []c14Pat{{cycle, rsq, code, ""}})
					patSets = append(patSets, []c14Pat{{cycle, rsq, code, v.ID}})
					if au != nil {
						patSets = append(patSets, []c14Pat{{cycle, rsq, code, au.ID}})
						patSets = append(patSets, []c14Pat{{cycle, rsq, code, v.ID}, {cycles[(ci+3)%len(cycles)], (rsq + 1) % 3, codesAll[(cdi+1)%4], au.ID}})
					}
					patSets = append(patSets, []c14Pat{{cycle, rsq, code, ""}, {cycles[(ci+5)%len(cycles)], 0, codesAll[(cdi+2)%4], ""}})
					for _, pats := range patSets {
						for _, start := range []int64{0, 900} {
							for _, snr := range []int{-1, 7} {
								for _, byTime := range []bool{false, true} {
									job++
									if !vh.Mine(job) {
										continue
									}
									if quick && job%2 == 0 {
										continue
									}
									if rep.OutOfBudget() {
										return
									}
									c14RunStatus(rep, srv, a, sel.path, v, au, pats, start, snr, byTime, job%3 == 0)
								}
							}
						}
					}
				}
			}
		}
	}
}

// shortWindow: tsbd_10, so that the first segment of a cycle has left the time-shift window long before the cycle ends
func c14RunStatus(rep *vh.Report, srv *Server, a *vref.VAsset, asset string, v, au *vref.VRep, pats []c14Pat, start int64, snr int, byTime, shortWindow bool) {
	var ps []string
	lcmS := a.LoopMS / 1000
	if lcmS < 1 {
		lcmS = 1
	}
	for _, p := range pats {
		ps = append(ps, p.String())
		c := int64(p.cycle)
		lcmS = lcmS / c14Gcd(lcmS, c) * c
	}
	var parts []string
	if byTime {
		parts = append(parts, "segtimeline_1")
	}
	if snr >= 0 {
		parts = append(parts, fmt.Sprintf("snr_%d", snr))
	}
	if start > 0 {
		parts = append(parts, fmt.Sprintf("start_%d", start))
	}
	if shortWindow {
		parts = append(parts, "tsbd_10")
	}
	// representations the pattern must treat like any other: subtitles and thumbnails of the asset, generated subtitles
	type extraT struct{ id, tmpl string }
	var extras []extraT
	if asset == "testpic_2s" && !byTime {
		parts = append(parts, "timesubsstpp_en")
		extras = []extraT{{"imsc1_txt_sv", "imsc1_txt_sv/%d.m4s"}, {"thumbs", "thumbs/%d.jpg"}, {"timestpp-en", "timestpp-en/%d.m4s"}}
	}
	parts = append(parts, "statuscode_["+strings.Join(ps, ",")+"]")
	prefix := vCfgPrefix(parts...)
	startNr := int64(0)
	if snr >= 0 {
		startNr = int64(snr)
	}
	horizonTicks := uint64(2*lcmS) * v.TS
	if horizonTicks > 400*v.TS {
		horizonTicks = 400 * v.TS
	}
	reps := []*vref.VRep{v}
	if au != nil {
		reps = append(reps, au)
	}
	first := true
	for n := int64(0); v.LiveStart(n) < horizonTicks; n++ {
		for _, r := range reps {
			var name string
			var endMS int64
			if r.Kind == "audio" {
				aS := vref.AudioBoundary(v.LiveStart(n), v.TS, r.TS, r.FrameDur)
				aE := vref.AudioBoundary(v.LiveEnd(n), v.TS, r.TS, r.FrameDur)
				endMS = vref.TicksToMSCeil(aE, r.TS)
				if byTime {
					name = vref.ExpandURL(strings.ReplaceAll(r.MediaTmpl, "$Number$", "$Time$"), r.ID, r.Bandwidth, 0, aS)
				} else {
					name = vref.ExpandURL(strings.ReplaceAll(r.MediaTmpl, "$Time$", "$Number$"), r.ID, r.Bandwidth, startNr+n, 0)
				}
			} else {
				endMS = vref.TicksToMSCeil(v.LiveEnd(n), v.TS)
				if byTime {
					name = vref.ExpandURL(strings.ReplaceAll(r.MediaTmpl, "$Number$", "$Time$"), r.ID, r.Bandwidth, 0, v.LiveStart(n))
				} else {
					name = vref.ExpandURL(strings.ReplaceAll(r.MediaTmpl, "$Time$", "$Number$"), r.ID, r.Bandwidth, startNr+n, 0)
				}
			}
			now := start*1000 + endMS + 1
			url := fmt.Sprintf("%s/%s/%s?nowMS=%d", prefix, asset, name, now)
			resp := vGet(srv, url)
			rep.AddStates(1)
			rep.AddExecs(1)
			if !first {
				rep.AddTrans(1)
			}
			first = false
			want := c14Expected(pats, v, n, r.ID, 0, 0)
			rep.Hit("C14.status")
			if !want[resp.Code] {
				var w []int
				for c := range want {
					w = append(w, c)
				}
				kind := "missed"
				if resp.Code != 200 {
					kind = "spurious"
					if !want[200] {
						kind = "wrong-code"
					}
				}
				sig := fmt.Sprintf("%s:%s:%s", kind, r.Kind, vIf(byTime, "time", "nr"))
				if resp.vCrashed() {
					site, _ := vPanicSite(srv.livesimHandlerFunc, "GET", url, nil)
					sig = "panic:" + site
				}
				rep.Violate("C14.status", sig, fmt.Sprintf("%s start=%d snr=%d patterns=%s: segment index %d of %s answered %d %q, reference says %v",
					asset, start, snr, strings.Join(ps, ","), n, r.ID, resp.Code, vTrim(resp.Body), w), map[string]any{"url": url})
			}
		}
	}
	for n := int64(0); len(extras) > 0 && v.LiveStart(n) < horizonTicks; n++ {
		for _, x := range extras {
			now := start*1000 + vref.TicksToMSCeil(v.LiveEnd(n), v.TS) + 1
			url := fmt.Sprintf("%s/%s/%s?nowMS=%d", prefix, asset, fmt.Sprintf(x.tmpl, startNr+n), now)
			resp := vGet(srv, url)
			rep.AddStates(1)
			rep.AddExecs(1)
			want := c14Expected(pats, v, n, x.id, 0, 0)
			rep.Hit("C14.status")
			if !want[resp.Code] {
				kind := "missed"
				if resp.Code != 200 {
					kind = "spurious"
					if !want[200] {
						kind = "wrong-code"
					}
				}
				sig := fmt.Sprintf("%s:%s:nr", kind, x.id)
				if resp.vCrashed() {
					site, _ := vPanicSite(srv.livesimHandlerFunc, "GET", url, nil)
					sig = "panic:" + site
				}
				rep.Violate("C14.status", sig, fmt.Sprintf("%s start=%d snr=%d patterns=%s: segment index %d of %s answered %d %q", asset, start, snr, strings.Join(ps, ","), n, x.id, resp.Code, vTrim(resp.Body)), map[string]any{"url": url})
			}
		}
	}
	rep.Sample(map[string]any{"asset": asset, "patterns": ps, "start": start, "snr": snr, "byTime": byTime, "stream_seconds": horizonTicks / v.TS})
	rep.Outcome(fmt.Sprintf("%s|%v", strings.Join(ps, ","), byTime))
}

func c14Traffic(t *testing.T, rep *vh.Report, quick bool) {
	srv, err := vServer(vBundledRoot)
	if err != nil {
		t.Fatalf("server: %v", err)
	}
	a, _ := vAsset(vBundledRoot, "testpic_2s")
	v := a.Ref
	states := []byte{'u', 'd', 's', 'h'}
	durs := []int{1, 2, 3}
	type itv struct {
		st  byte
		dur int
	}
	var pats [][]itv
	var gen func(cur []itv, depth int)
	gen = func(cur []itv, depth int) {
		if len(cur) > 0 {
			pats = append(pats, append([]itv{}, cur...))
		}
		if depth == 3 {
			return
		}
		for _, s := range states {
			for _, d := range durs {
				gen(append(cur, itv{s, d}), depth+1)
			}
		}
	}
	gen(nil, 0)
	rep.Extra["traffic_patterns"] = len(pats)
	str := func(p []itv) string {
		var b strings.Builder
		for _, i := range p {
			fmt.Fprintf(&b, "%c%d", i.st, i.dur)
		}
		return b.String()
	}
	stateAt := func(p []itv, sec int64) byte {
		cyc := 0
		for _, i := range p {
			cyc += i.dur
		}
		x := int(sec % int64(cyc))
		for _, i := range p {
			if x < i.dur {
				return i.st
			}
			x -= i.dur
		}
		return '?'
	}
	base := int64(1000) // seconds; far enough for the time-shift window to be full
	for pi, p := range pats {
		if !vh.Mine(pi + 1_000_000) {
			continue
		}
		if quick && len(p) == 3 && pi%5 != 0 {
			continue
		}
		if rep.OutOfBudget() {
			return
		}
		// second pattern for a second BaseURL: the reverse of p
		q := make([]itv, len(p))
		for i := range p {
			q[len(p)-1-i] = p[i]
		}
		cfgp := []string{"traffic_" + str(p) + "," + str(q)}
		// MPD offers one BaseURL per pattern
		murl := fmt.Sprintf("%s/testpic_2s/Manifest.mpd?nowMS=%d", vCfgPrefix(cfgp...), base*1000)
		mr := vGet(srv, murl)
		rep.AddExecs(1)
		rep.Hit("C14.baseurl")
		if m, err := vref.ParseMPD(mr.Body); mr.Code != 200 || err != nil || len(m.Periods) != 1 || len(m.Periods[0].BaseURLs) != 2 ||
			m.Periods[0].BaseURLs[0] != "bu0/" || m.Periods[0].BaseURLs[1] != "bu1/" {
			rep.Violate("C14.baseurl", "baseurls", fmt.Sprintf("%s: MPD does not offer exactly BaseURL bu0/ and bu1/ (status %d)", murl, mr.Code), map[string]any{"url": murl})
		}
		// ... in every Period and for every MPD type when the MPD is split into periods
		for _, extra := range [][]string{{"periods_60"}, {"periods_60", "continuous_1"}, {"periods_60", "segtimeline_1"}, {"segtimeline_1"}, {"segtimelinenr_1", "periods_30"}} {
			xurl := fmt.Sprintf("%s/testpic_2s/Manifest.mpd?nowMS=%d", vCfgPrefix(append(append([]string{}, cfgp...), extra...)...), base*1000)
			xr := vGet(srv, xurl)
			rep.AddExecs(1)
			rep.Hit("C14.baseurl")
			m, err := vref.ParseMPD(xr.Body)
			if xr.Code != 200 || err != nil || len(m.Periods) == 0 {
				rep.Violate("C14.baseurl", "baseurls:mpd-status:"+strings.Join(extra, "+"), fmt.Sprintf("%s: status %d %v", xurl, xr.Code, err), map[string]any{"url": xurl})
				continue
			}
			for _, pd := range m.Periods {
				if len(pd.BaseURLs) != 2 || pd.BaseURLs[0] != "bu0/" || pd.BaseURLs[1] != "bu1/" {
					rep.Violate("C14.baseurl", "baseurls:"+strings.Join(extra, "+"), fmt.Sprintf("%s: Period %s offers BaseURLs %v, want [bu0/ bu1/]", xurl, pd.ID, pd.BaseURLs), map[string]any{"url": xurl})
					break
				}
			}
		}
		cyc := 0
		for _, i := range p {
			cyc += i.dur
		}
		for sec := base; sec < base+int64(2*cyc); sec++ {
			for bi, pat := range [][]itv{p, q} {
				now := sec*1000 + 500
				n := v.LastEnded(now, 0)
				url := fmt.Sprintf("%s/testpic_2s/bu%d/V300/%d.m4s?nowMS=%d", vCfgPrefix(cfgp...), bi, n, now)
				var resp vResp
				var elapsed int64
				x := vrt.Run(nil, vrt.RunOpts{StartNS: now * 1_000_000, WatchdogS: 60}, func(s *vrt.Sched) {
					t0 := s.Now()
					resp = vGet(srv, url)
					elapsed = (s.Now() - t0) / 1_000_000
				})
				rep.AddStates(1)
				rep.AddTrans(1)
				rep.AddExecs(1)
				rep.Hit("C14.traffic")
				if len(x.Fails) > 0 {
					rep.Violate("C14.traffic", "engine:"+x.Fails[0].Sig, x.Fails[0].Msg, map[string]any{"url": url})
					continue
				}
				st := stateAt(pat, sec)
				wantCode, wantDelay := 200, int64(0)
				switch st {
				case 'd':
					wantCode = 404
				case 's':
					wantDelay = 2000
				case 'h':
					wantCode, wantDelay = 503, 10000
				}
				if resp.Code != wantCode || elapsed != wantDelay {
					rep.Violate("C14.traffic", fmt.Sprintf("state-%c:got-%d-after-%dms", st, resp.Code, elapsed),
						fmt.Sprintf("traffic_%s,%s BaseURL %d second %d (state %c): status %d after %d ms (virtual), want %d after %d ms", str(p), str(q), bi, sec, st, resp.Code, elapsed, wantCode, wantDelay),
						map[string]any{"url": url})
				}
			}
		}
		if pi%200 == 0 {
			rep.Sample(map[string]any{"traffic": str(p) + "," + str(q), "seconds": 2 * cyc})
		}
		rep.Outcome("traffic:" + str(p))
	}
}
