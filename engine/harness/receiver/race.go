package app

// Supplementary free-running pass under Go's race detector for the receiver (see the
// livesim package's race.go for the rationale).

import (
	"context"
	"fmt"
	"os"
	"sync"
	"testing"

	"github.com/Dash-Industry-Forum/livesim2/internal/vshim/vh"
)

func TestVerifRaceC19(t *testing.T) {
	rep := vh.NewReport("C19")
	defer rep.Write()
	tracks, err := rLoadTracks()
	if err != nil {
		t.Fatalf("testdata: %v", err)
	}
	sh, _ := vh.Shard()
	root, err := rScratch(fmt.Sprintf("c19race-%d", sh))
	if err != nil {
		t.Fatalf("scratch: %v", err)
	}
	defer os.RemoveAll(root)
	names := []string{"video-500Kbps", "video-800Kbps", "audio-nor-128Kbps", "text-nor-0"}
	for round := 0; round < 12 && !rep.OutOfBudget(); round++ {
		storage := fmt.Sprintf("%s/r%d", root, round)
		_ = os.MkdirAll(storage, 0o755)
		ctx, cancel := context.WithCancel(context.Background())
		_, h, err := rNewReceiver(ctx, storage, nil, 30)
		if err != nil {
			cancel()
			t.Fatalf("receiver: %v", err)
		}
		var wg sync.WaitGroup
		for ci, ch := range []string{"ch1", "ch2"} {
			for _, tn := range names {
				if ci == 1 && tn != names[0] && tn != names[2] {
					continue
				}
				wg.Add(1)
				go func(ch, tn string) {
					defer wg.Done()
					tr := tracks[tn]
					rPut(h, fmt.Sprintf("/upload/%s/%s/init%s", ch, tn, tr.ext), tr.init, true, "", "")
					for k := 0; k < 4; k++ {
						rPut(h, fmt.Sprintf("/upload/%s/%s/%d%s", ch, tn, k, tr.ext), tr.segs[k], true, "", "")
					}
				}(ch, tn)
			}
		}
		wg.Wait()
		cancel()
		_ = os.RemoveAll(storage)
		rep.AddExecs(1)
		rep.AddStates(1)
		rep.AddTrans(30)
		rep.Hit("C19.racepass")
	}
}
