package app

import (
	"os"
	"path/filepath"
	"testing"

	"github.com/Dash-Industry-Forum/livesim2/internal/vshim/vgen"
	"github.com/Dash-Industry-Forum/livesim2/internal/vshim/vh"
)

// TestVerifGen writes the generated asset alphabet to $VERIF_GENROOT (run once by the driver
// before the shards start).
func TestVerifGen(t *testing.T) {
	root := os.Getenv("VERIF_GENROOT")
	if root == "" {
		t.Skip("no VERIF_GENROOT")
	}
	src := filepath.Join(vBundledRoot, "testpic_2s")
	for _, l := range vgen.Layouts(vh.Quick()) {
		if err := vgen.Generate(root, src, l); err != nil {
			t.Fatalf("generate %s: %v", l.Name, err)
		}
	}
	// layouts that single checks ask for: next to the common root
	for _, l := range vgen.ExtraLayouts() {
		if err := vgen.Generate(vGenExtraRoot(), src, l); err != nil {
			t.Fatalf("generate %s: %v", l.Name, err)
		}
	}
	if neg := os.Getenv("VERIF_GENNEG"); neg != "" {
		for _, l := range vgen.NegativeLayouts() {
			if err := vgen.Generate(neg, src, l); err != nil {
				t.Fatalf("generate %s: %v", l.Name, err)
			}
		}
	}
}

// vGenExtraRoot is the VoD root of the layouts of vgen.ExtraLayouts ("" without generated assets).
func vGenExtraRoot() string {
	g := os.Getenv("VERIF_GENROOT")
	if g == "" {
		return ""
	}
	return filepath.Join(filepath.Dir(g), "genx")
}

// vExtraWanted reports whether an asset path below the extra root is one of the layouts a check asked for.
func vExtraWanted(root, ap string, names ...string) bool {
	if root != vGenExtraRoot() || root == "" {
		return true
	}
	for _, n := range names {
		if ap == n {
			return true
		}
	}
	return false
}
