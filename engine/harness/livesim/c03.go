package app

// C03 — audio is re-segmented to follow video boundaries without loss or duplication.
// E3: every audio representation x every n over the audio/video phase cycle (and far from the
// epoch) x {Number, Time}; reference = exact-rational frame-boundary model + VoD frame identity.

import (
	"bytes"
	"fmt"
	"sort"
	"strings"
	"testing"

	"github.com/Dash-Industry-Forum/livesim2/internal/vshim/vh"
	"github.com/Dash-Industry-Forum/livesim2/internal/vshim/vref"
)

func c03Gcd(a, b uint64) uint64 {
	for b != 0 {
		a, b = b, a%b
	}
	return a
}

// c03Frames returns the VoD audio frames in presentation order.
func c03Frames(r *vref.VRep) []vref.Sample {
	var out []vref.Sample
	for _, s := range r.Segs {
		out = append(out, s.Samples...)
	}
	return out
}

// c03FrameAt: index of the VoD frame that must be at audio time T (multiple of frame) of the looped source.
func c03FrameAt(a *vref.VAsset, r *vref.VRep, nFrames int, T uint64) int {
	v := a.Ref
	Lv := v.LoopTicks()
	// loop w with F(w*Lv) <= T < F((w+1)*Lv)
	w := vref.FloorMulDiv(T, v.TS, r.TS) / Lv // T in video ticks / loop, may be off by one around the boundary
	for w > 0 && vref.AudioBoundary(w*Lv, v.TS, r.TS, r.FrameDur) > T {
		w--
	}
	for vref.AudioBoundary((w+1)*Lv, v.TS, r.TS, r.FrameDur) <= T {
		w++
	}
	p := int((T - vref.AudioBoundary(w*Lv, v.TS, r.TS, r.FrameDur)) / uint64(r.FrameDur))
	if p >= nFrames {
		p = nFrames - 1 // padding: last frame repeated when the audio loop is shorter than the video loop
	}
	return p
}

func TestVerifC03(t *testing.T) {
	rep := vh.NewReport("C03")
	defer rep.Write()
	quick := vh.Quick()
	roots := []string{vBundledRoot}
	if g := vGenRoot(); g != "" {
		roots = append(roots, g)
		if x := vGenExtraRoot(); x != "" {
			roots = append(roots, x) // two audio AdaptationSets with different frame durations
		}
	}
	type job struct {
		root, asset, rep string
		byTime           bool
		snr              int
		start            int64
	}
	var jobs []job
	for _, root := range roots {
		for _, ap := range vAssetPaths(root) {
			if !vExtraWanted(root, ap, "x_two_audio", "x_audio_441") {
				continue
			}
			if vTimeOffsetAsset(ap) {
				continue // see DESIGN: assets whose first segment does not start at media time 0 are probed by C02 only
			}
			a, err := vAsset(root, ap)
			if err != nil || !a.LoopExact || a.Ref.Kind != "video" {
				continue
			}
			var ids []string
			for id := range a.Reps {
				ids = append(ids, id)
			}
			sort.Strings(ids)
			for _, id := range ids {
				if a.Reps[id].Kind != "audio" || a.Reps[id].FrameDur == 0 {
					continue
				}
				for _, byTime := range []bool{false, true} {
					jobs = append(jobs, job{root, ap, id, byTime, -1, 0})
					jobs = append(jobs, job{root, ap, id, byTime, 7, 900})
				}
			}
		}
	}
	for ji, j := range jobs {
		if !vh.Mine(ji) {
			continue
		}
		srv, err := vServer(j.root)
		if err != nil {
			t.Fatalf("server: %v", err)
		}
		if _, served := srv.assetMgr.assets[j.asset]; !served {
			continue
		}
		a, _ := vAsset(j.root, j.asset)
		r, v := a.Reps[j.rep], a.Ref
		frames := c03Frames(r)
		N := int64(len(v.Segs))
		Lv := v.LoopTicks()
		den := v.TS * uint64(r.FrameDur)
		P := int64(den / c03Gcd(den, (Lv%den)*(r.TS%den)%den+den)) // conservative: recomputed exactly below
		{
			// exact: period of (w*Lv*tsA) mod (tsV*frame)
			x := (Lv % den) * (r.TS % den) % den
			P = int64(den / c03Gcd(den, x+den*boolU(x == 0)))
		}
		capP := int64(64)
		if !quick {
			capP = 2048
		}
		if P > capP {
			rep.Cap(fmt.Sprintf("%s/%s: phase period %d loops capped at %d", j.asset, j.rep, P, capP))
			P = capP
		}
		startNr := int64(0)
		if j.snr >= 0 {
			startNr = int64(j.snr)
		}
		var pfx []string
		if j.byTime {
			pfx = append(pfx, "segtimeline_1")
		}
		if j.snr >= 0 {
			pfx = append(pfx, fmt.Sprintf("snr_%d", j.snr))
		}
		if j.start > 0 {
			pfx = append(pfx, fmt.Sprintf("start_%d", j.start))
		}
		prefix := vCfgPrefix(pfx...)
		viol := func(clause, sig, msg, url string) {
			rep.Violate(clause, sig+vIf(j.byTime, ":time", ":nr"), fmt.Sprintf("%s/%s snr=%d start=%d: %s", j.asset, j.rep, j.snr, j.start, msg), map[string]any{"url": url})
		}
		farN := int64(1_700_000_000_000) / (a.LoopMS / N)
		ranges := [][2]int64{{0, (P+1)*N + 1}, {farN, farN + 2*N + 1}}
		for _, rg := range ranges {
			var prevEnd uint64
			havePrev := false
			for n := rg[0]; n <= rg[1]; n++ {
				if rep.OutOfBudget() {
					return
				}
				vs, ve := v.LiveStart(n), v.LiveEnd(n)
				aS := vref.AudioBoundary(vs, v.TS, r.TS, r.FrameDur)
				aE := vref.AudioBoundary(ve, v.TS, r.TS, r.FrameDur)
				now := j.start*1000 + vref.TicksToMSCeil(aE, r.TS) + 1
				mk := func(byTime bool) string {
					tmpl := r.MediaTmpl
					var name string
					if byTime {
						name = vref.ExpandURL(strings.ReplaceAll(tmpl, "$Number$", "$Time$"), r.ID, r.Bandwidth, 0, aS)
						p2 := append([]string{"segtimeline_1"}, pfx[boolI(j.byTime):]...)
						return fmt.Sprintf("%s/%s/%s?nowMS=%d", vCfgPrefix(p2...), j.asset, name, now)
					}
					name = vref.ExpandURL(strings.ReplaceAll(tmpl, "$Time$", "$Number$"), r.ID, r.Bandwidth, startNr+n, 0)
					return fmt.Sprintf("%s/%s/%s?nowMS=%d", vCfgPrefix(pfx[boolI(j.byTime):]...), j.asset, name, now)
				}
				_ = prefix
				url := mk(j.byTime)
				resp := vGet(srv, url)
				rep.AddStates(1)
				rep.AddExecs(1)
				if havePrev {
					rep.AddTrans(1)
				}
				if resp.Code != 200 {
					if resp.vCrashed() {
						site, val := vPanicSite(srv.livesimHandlerFunc, "GET", url, nil)
						viol("C03.status", "panic:"+site, fmt.Sprintf("n=%d: handler crashed: %s", n, val), url)
					} else {
						viol("C03.status", fmt.Sprintf("status-%d", resp.Code), fmt.Sprintf("n=%d: status %d %q", n, resp.Code, vTrim(resp.Body)), url)
					}
					havePrev = false
					continue
				}
				sg, err := vref.ParseSegment(resp.Body, r.Init.Trex)
				if err != nil {
					viol("C03.parse", "unparsable", fmt.Sprintf("n=%d: %v", n, err), url)
					havePrev = false
					continue
				}
				rep.Hit("C03.a")
				if sg.Start() != aS {
					viol("C03.a", "start", fmt.Sprintf("n=%d: tfdt %d, want first frame boundary at/after video start = %d", n, sg.Start(), aS), url)
				}
				rep.Hit("C03.b")
				if sg.Start()+sg.Dur() != aE {
					viol("C03.b", "end", fmt.Sprintf("n=%d: ends at %d, want first frame boundary at/after video end = %d", n, sg.Start()+sg.Dur(), aE), url)
				}
				if havePrev && sg.Start() != prevEnd {
					viol("C03.b", "gap", fmt.Sprintf("n=%d starts at %d, n-1 ended at %d", n, sg.Start(), prevEnd), url)
				}
				prevEnd, havePrev = sg.Start()+sg.Dur(), true
				rep.Hit("C03.c")
				ss := sg.Samples()
				if uint64(len(ss)) != (aE-aS)/uint64(r.FrameDur) {
					viol("C03.c", "frame-count", fmt.Sprintf("n=%d: %d frames, want (end-start)/frame = %d", n, len(ss), (aE-aS)/uint64(r.FrameDur)), url)
				}
				if int64(sg.Frags[0].Seq) != startNr+n {
					viol("C03.c", "seqnr", fmt.Sprintf("n=%d: sequence number %d want %d", n, sg.Frags[0].Seq, startNr+n), url)
				}
				rep.Hit("C03.d")
				T := sg.Start()
				for k, s := range ss {
					if s.Dur != r.FrameDur {
						viol("C03.c", "frame-dur", fmt.Sprintf("n=%d frame %d: duration %d want %d", n, k, s.Dur, r.FrameDur), url)
						break
					}
					want := c03FrameAt(a, r, len(frames), T)
					if s.Hash != frames[want].Hash || s.Size != frames[want].Size {
						viol("C03.d", "frame-identity", fmt.Sprintf("n=%d frame %d (time %d): not VoD frame %d of the looped source", n, k, T, want), url)
						break
					}
					T += uint64(s.Dur)
				}
				// (f) the other addressing mode gives the same bytes
				rep.Hit("C03.f")
				url2 := mk(!j.byTime)
				r2 := vGet(srv, url2)
				rep.AddExecs(1)
				if r2.Code != 200 || !bytes.Equal(r2.Body, resp.Body) {
					viol("C03.f", "time-vs-number", fmt.Sprintf("n=%d: other addressing mode gives status %d, %d bytes (this: %d bytes)", n, r2.Code, len(r2.Body), len(resp.Body)), url2)
				}
				// (e) audio SegmentTimeline in the MPD at this instant
				if n%3 == 0 || n < rg[0]+2*N {
					c03CheckMPD(rep, srv, a, r, j.asset, pfx, j.byTime, j.start, now, viol)
				}
			}
		}
		rep.Sample(map[string]any{"asset": j.asset, "rep": j.rep, "byTime": j.byTime, "phase_period_loops": P, "ranges": ranges})
		rep.Outcome(fmt.Sprintf("%s/%s/%v", j.asset, j.rep, j.byTime))
	}
}

func boolI(b bool) int {
	if b {
		return 1
	}
	return 0
}

func boolU(b bool) uint64 {
	if b {
		return 1
	}
	return 0
}

// c03CheckMPD: the audio SegmentTimeline lists exactly the reference (start, duration) of the
// video segments listed in the same MPD.
func c03CheckMPD(rep *vh.Report, srv *Server, a *vref.VAsset, r *vref.VRep, asset string, pfx []string, byTime bool, start, now int64,
	viol func(clause, sig, msg, url string)) {
	p := pfx
	if !byTime {
		p = append([]string{"segtimelinenr_1"}, pfx...)
	}
	mpdName := vMPDNameFor(a, r.ID)
	url := fmt.Sprintf("%s/%s/%s?nowMS=%d", vCfgPrefix(p...), asset, mpdName, now)
	resp := vGet(srv, url)
	rep.AddExecs(1)
	if resp.Code != 200 {
		viol("C03.e", fmt.Sprintf("mpd-status-%d", resp.Code), fmt.Sprintf("MPD status %d %q", resp.Code, vTrim(resp.Body)), url)
		return
	}
	m, err := vref.ParseMPD(resp.Body)
	if err != nil {
		viol("C03.e", "mpd-unparsable", err.Error(), url)
		return
	}
	segs, err := m.TimelineSegs()
	if err != nil {
		viol("C03.e", "mpd-timeline", err.Error(), url)
		return
	}
	v := a.Ref
	var vid, aud []vref.DeclSeg
	for _, s := range segs {
		if s.RepID == v.ID {
			vid = append(vid, s)
		}
		if s.RepID == r.ID {
			aud = append(aud, s)
		}
	}
	rep.Hit("C03.e")
	if len(vid) != len(aud) {
		viol("C03.e", "timeline-length", fmt.Sprintf("MPD lists %d video and %d audio segments", len(vid), len(aud)), url)
		return
	}
	for i := range vid {
		wS := vref.AudioBoundary(vid[i].Time, v.TS, r.TS, r.FrameDur)
		wE := vref.AudioBoundary(vid[i].Time+vid[i].Dur, v.TS, r.TS, r.FrameDur)
		if aud[i].Time != wS || aud[i].Dur != wE-wS {
			viol("C03.e", "timeline-entry", fmt.Sprintf("audio timeline entry %d is (t=%d,d=%d), reference for video (t=%d,d=%d) is (t=%d,d=%d)", i, aud[i].Time, aud[i].Dur, vid[i].Time, vid[i].Dur, wS, wE-wS), url)
			return
		}
	}
}
