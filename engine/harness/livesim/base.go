package app

// shared helpers of the livesim2 verification harnesses (in-package, reach unexported seams)

import (
	"bytes"
	"compress/gzip"
	"context"
	"fmt"
	"io"
	"net/http"
	"net/http/httptest"
	"os"
	"path/filepath"
	"runtime"
	"sort"
	"strings"
	"sync"
	"time"

	"github.com/Dash-Industry-Forum/livesim2/internal/vshim/vref"
	"github.com/Dash-Industry-Forum/livesim2/pkg/logging"
)

var (
	vSrvMu    sync.Mutex
	vSrvCache = map[string]*Server{}
)

const vBundledRoot = "testdata/assets"

// The process's local time zone is part of the environment, not of the request: every harness runs with a zone that is
// neither UTC nor a whole number of hours away from it, so that anything rendered in local time differs from the
// reference, which works in UTC throughout.
func init() { time.Local = time.FixedZone("VERIF", -(3*3600 + 30*60)) }

// vServer returns a (cached) server on the given VoD root; no sockets are used.
func vServer(root string) (*Server, error) {
	vSrvMu.Lock()
	defer vSrvMu.Unlock()
	if s, ok := vSrvCache[root]; ok {
		return s, nil
	}
	s, err := vNewServer(root, "", false)
	if err != nil {
		return nil, err
	}
	vSrvCache[root] = s
	return s, nil
}

func vNewServer(root, repDataRoot string, writeRepData bool) (*Server, error) {
	cfg := ServerConfig{VodRoot: root, TimeoutS: 0, LogFormat: logging.LogDiscard, RepDataRoot: repDataRoot, WriteRepData: writeRepData}
	if err := logging.InitSlog(cfg.LogLevel, cfg.LogFormat); err != nil {
		return nil, err
	}
	return SetupServer(context.Background(), &cfg)
}

type vResp struct {
	Code  int
	CType string
	Body  []byte
	Hdr   http.Header
}

// vGet issues one request through the full router (middleware included).
func vGet(s *Server, url string) vResp {
	return vDo(s, "GET", url, nil)
}

func vDo(s *Server, method, url string, body []byte) vResp {
	var rd *bytes.Reader
	if body != nil {
		rd = bytes.NewReader(body)
	}
	var req *http.Request
	if rd != nil {
		req = httptest.NewRequest(method, url, rd)
	} else {
		req = httptest.NewRequest(method, url, nil)
	}
	req.RemoteAddr = "127.0.0.1:1234"
	w := httptest.NewRecorder()
	s.Router.ServeHTTP(w, req)
	return vResp{Code: w.Code, CType: w.Header().Get("Content-Type"), Body: w.Body.Bytes(), Hdr: w.Header()}
}

// vCrashed: chi's Recoverer answers a recovered panic with 500 and an empty body; every
// deliberate 500 of livesim2 has a message.
func (r vResp) vCrashed() bool { return r.Code == 500 && len(r.Body) == 0 }

// vPanicSite replays a request directly on a handler func under our own recover and returns
// "function: panic value" ("" if it does not panic).
func vPanicSite(h http.HandlerFunc, method, url string, body []byte) (site string, val string) {
	defer func() {
		if r := recover(); r != nil {
			buf := make([]byte, 16384)
			buf = buf[:runtime.Stack(buf, false)]
			site = vStackSite(string(buf))
			val = fmt.Sprint(r)
		}
	}()
	var req *http.Request
	if body != nil {
		req = httptest.NewRequest(method, url, bytes.NewReader(body))
	} else {
		req = httptest.NewRequest(method, url, nil)
	}
	w := httptest.NewRecorder()
	h(w, req)
	return "", ""
}

func vStackSite(stack string) string {
	lines := strings.Split(stack, "\n")
	seenPanic := false
	for _, l := range lines {
		if strings.HasPrefix(l, "panic(") {
			seenPanic = true
			continue
		}
		if !seenPanic || strings.HasPrefix(l, "\t") {
			continue
		}
		if strings.Contains(l, "livesim2/") && !strings.Contains(l, "/vshim/") && !strings.Contains(l, "vPanicSite") {
			fn := l
			if k := strings.LastIndex(fn, "("); k > 0 {
				fn = fn[:k]
			}
			if k := strings.LastIndex(fn, "/"); k >= 0 {
				fn = fn[k+1:]
			}
			return fn
		}
	}
	return "unknown"
}

// ---- reference assets

var (
	vAssetMu    sync.Mutex
	vAssetCache = map[string]*vref.VAsset{}
)

func vAsset(root, path string) (*vref.VAsset, error) {
	vAssetMu.Lock()
	defer vAssetMu.Unlock()
	k := root + "|" + path
	if a, ok := vAssetCache[k]; ok {
		return a, nil
	}
	a, err := vref.LoadAsset(root, path)
	if err != nil {
		return nil, err
	}
	vAssetCache[k] = a
	return a, nil
}

// vAssetPaths lists the asset directories (those holding an .mpd) under root, sorted.
func vAssetPaths(root string) []string {
	var out []string
	_ = filepath.Walk(root, func(p string, info os.FileInfo, err error) error {
		if err == nil && !info.IsDir() && strings.HasSuffix(p, ".mpd") {
			d, _ := filepath.Rel(root, filepath.Dir(p))
			dup := false
			for _, o := range out {
				if o == d {
					dup = true
				}
			}
			if !dup {
				out = append(out, d)
			}
		}
		return nil
	})
	sort.Strings(out)
	return out
}

// vCfgPrefix builds the URL configuration prefix.
func vCfgPrefix(parts ...string) string {
	var b strings.Builder
	b.WriteString("/livesim2")
	for _, p := range parts {
		if p != "" {
			b.WriteString("/" + p)
		}
	}
	return b.String()
}

func vCeilDiv(a, b int64) int64 {
	if a >= 0 {
		return (a + b - 1) / b
	}
	return a / b
}

// vMPDNameFor returns an MPD name of the asset that lists the representation.
func vMPDNameFor(a *vref.VAsset, repID string) string {
	var names []string
	for n := range a.MPDs {
		names = append(names, n)
	}
	sort.Strings(names)
	for _, n := range names {
		m := a.MPDs[n]
		for _, as := range m.Periods[0].AS {
			for _, r := range as.Reps {
				if r.ID == repID {
					return n
				}
			}
		}
	}
	return ""
}

// vGenRoot returns the root of the generated (re-cut) assets, "" if none were generated.
func vGenRoot() string {
	d := os.Getenv("VERIF_GENROOT")
	if d == "" {
		return ""
	}
	if _, err := os.Stat(d); err != nil {
		return ""
	}
	return d
}

// vTimeOffsetAsset: generated asset whose first VoD segment starts at a non-zero media time.
func vTimeOffsetAsset(ap string) bool { return strings.HasPrefix(ap, "g_time_offset") }

func vGunzip(b []byte) ([]byte, error) {
	zr, err := gzip.NewReader(bytes.NewReader(b))
	if err != nil {
		return nil, err
	}
	return io.ReadAll(zr)
}
