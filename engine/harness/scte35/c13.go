package scte35

// C13 (part i) — the pure carrier relation: every segment of > 2^33/90000 s of stream time
// x segment durations x N through the real CreateEmsgAhead, against the per-minute schedule.

import (
	"fmt"
	"testing"

	"github.com/Dash-Industry-Forum/livesim2/internal/vshim/vh"
	"github.com/Dash-Industry-Forum/livesim2/internal/vshim/vref"
)

func c13Offsets(n int) []uint64 {
	switch n {
	case 1:
		return []uint64{10}
	case 2:
		return []uint64{10, 40}
	}
	return []uint64{10, 36, 46}
}

func TestVerifC13(t *testing.T) {
	rep := vh.NewReport("C13")
	defer rep.Write()
	quick := vh.Quick()
	const ts = 90000
	durs := []uint64{1 * ts, 2 * ts, 3 * ts, 4 * ts, 5 * ts, 6 * ts, 7 * ts, 8 * ts, 9 * ts, 10 * ts, ts / 2, 3 * ts / 2, 5 * ts / 2, 9 * ts / 2, 172800, 180180, 345600}
	horizon := uint64(27*3600) * ts
	job := 0
	for _, d := range durs {
		for N := 1; N <= 3; N++ {
			job++
			if !vh.Mine(job) {
				continue
			}
			ranges := [][2]uint64{{0, horizon}}
			if quick {
				ranges = [][2]uint64{{0, 3600 * ts}, {uint64(26*3600+1200) * ts, uint64(26*3600+2400) * ts}}
			}
			adDur := uint64(10)
			if N == 1 {
				adDur = 20
			}
			for _, rg := range ranges {
				carried := map[uint64]int{} // splice second -> number of carriers
				first := rg[0] / d * d
				var nSeg int64
				for s := first; s < rg[1]; s += d {
					e := s + d
					nSeg++
					em, err := CreateEmsgAhead(s, e, ts, N)
					if err != nil {
						rep.Violate("C13.sched", "error", fmt.Sprintf("d=%d N=%d seg [%d,%d]: %v", d, N, s, e, err), nil)
						continue
					}
					if em == nil {
						continue
					}
					in := map[string]any{"segStart": s, "segEnd": e, "timescale": ts, "perMinute": N}
					sp := em.PresentationTime
					carried[sp/ts]++
					// the carried splice must be one of the schedule and its announce instant inside the segment
					okOff := false
					for _, o := range c13Offsets(N) {
						if sp%(60*ts) == o*ts {
							okOff = true
						}
					}
					rep.Hit("C13.sched")
					if !okOff {
						rep.Violate("C13.sched", "off-schedule", fmt.Sprintf("d=%d N=%d: splice at %d/%d s is not at a documented offset", d, N, sp, ts), in)
					}
					ann := sp - 7*ts
					if ann < s || ann > e {
						rep.Violate("C13.carrier", "announce-outside-carrier", fmt.Sprintf("d=%d N=%d: segment [%d,%d] carries splice %d whose announce instant %d lies outside", d, N, s, e, sp, ann), in)
					}
					// event consistency
					rep.Hit("C13.event")
					if uint64(em.ID) != sp/ts || uint64(em.EventDuration) != adDur*ts || uint64(em.TimeScale) != ts || em.SchemeIDURI != SchemeIDURI {
						rep.Violate("C13.event", "emsg-fields", fmt.Sprintf("d=%d N=%d splice %d: id=%d duration=%d timescale=%d scheme=%s", d, N, sp, em.ID, em.EventDuration, em.TimeScale, em.SchemeIDURI), in)
					}
					si, err := vref.ParseSpliceInfo(em.MessageData)
					if err != nil {
						rep.Violate("C13.event", "splice-info-unparsable", err.Error(), in)
						continue
					}
					wantPTS := (sp * 90000 / ts) % (1 << 33)
					if si.TableID != 0xFC || si.CommandType != 5 || !si.CRCOK || si.PTS != wantPTS || !si.TimeSpecified || si.Duration != adDur*90000 || !si.HasDuration || !si.AutoReturn ||
						si.EventID != em.ID || !si.OutOfNetwork || si.Cancel || si.Immediate {
						rep.Violate("C13.event", "splice-info-fields", fmt.Sprintf("d=%d N=%d splice at %d s: table=%x cmd=%d crc=%v pts=%d (want %d) dur=%d (want %d) autoreturn=%v id=%d",
							d, N, sp/ts, si.TableID, si.CommandType, si.CRCOK, si.PTS, wantPTS, si.Duration, adDur*90000, si.AutoReturn, si.EventID), in)
					}
				}
				// exactly once: every scheduled splice whose announce instant lies inside the walked range
				lo, hi := first, first+uint64(nSeg)*d
				for m := lo / (60 * ts); m <= hi/(60*ts)+1; m++ {
					for _, o := range c13Offsets(N) {
						sp := m*60 + o
						if sp < 7 {
							continue
						}
						ann := (sp - 7) * ts
						if ann <= lo || ann > hi {
							continue
						}
						rep.Hit("C13.once")
						if c := carried[sp]; c != 1 {
							kind := "missing"
							if c > 1 {
								kind = "duplicate"
							}
							rep.Violate("C13.once", fmt.Sprintf("%s-event:N%d:offset%d", kind, N, o), fmt.Sprintf("segment duration %d/%d s, N=%d: splice at %d s (minute %d + %d s) is carried by %d segments", d, ts, N, sp, m, o, c),
								map[string]any{"segDur": d, "timescale": ts, "perMinute": N, "splice_s": sp})
						}
					}
				}
				rep.AddStates(nSeg)
				rep.AddTrans(nSeg)
				rep.AddExecs(nSeg)
				rep.Outcome(fmt.Sprintf("d%d-N%d-%d", d, N, len(carried)))
			}
			rep.Sample(map[string]any{"segDurTicks": d, "perMinute": N, "ranges_ticks": ranges})
		}
	}
	// invalid N
	// streams with different N served alternately by one process: the same segment is asked for
	// N = 1, 2, 3 in turn (state kept between calls must not leak from one stream to the other)
	if vh.Mine(0) {
		for _, d := range []uint64{2 * ts, 6 * ts, 172800} {
			for s := uint64(0); s < 1800*ts; s += d {
				for N := 1; N <= 3; N++ {
					em, err := CreateEmsgAhead(s, s+d, ts, N)
					if err != nil || em == nil {
						continue
					}
					adDur := uint64(10)
					if N == 1 {
						adDur = 20
					}
					rep.Hit("C13.event")
					rep.AddExecs(1)
					si, err := vref.ParseSpliceInfo(em.MessageData)
					if err != nil {
						rep.Violate("C13.event", "splice-info-unparsable", err.Error(), nil)
						continue
					}
					if uint64(em.EventDuration) != adDur*ts || si.Duration != adDur*90000 || si.EventID != em.ID {
						rep.Violate("C13.event", "alternating-streams:inconsistent-event", fmt.Sprintf("d=%d N=%d segment at %d s (asked right after the same segment for another N): emsg duration %d, section break_duration %d, want %d s; ids %d/%d",
							d, N, s/ts, em.EventDuration, si.Duration, adDur, em.ID, si.EventID), map[string]any{"segStart": s, "segDur": d, "perMinute": N})
					}
				}
			}
		}
	}
	for _, n := range []int{0, 4, -1, 100} {
		rep.Hit("C13.reject")
		if _, err := CreateEmsgAhead(0, ts, ts, n); err == nil {
			rep.Violate("C13.reject", "accepted-invalid-n", fmt.Sprintf("N=%d accepted", n), nil)
		}
	}
}
