package app

// Supplementary free-running passes under Go's race detector (built with -race, no vrt
// scheduler: the shims fall through to the real sync/time/channel operations). The cooperative
// scheduler's hand-offs are happens-before edges, so the detector is blind under it; here the
// same request alphabet and API programs run on real goroutines. This is sampling of
// schedules, not exploration: it decides nothing by itself, but a report of the race detector
// is always a real race and is raised as a violation (memory the field hooks cannot see:
// byte slices, reflective reads, library state).

import (
	"bytes"
	"fmt"
	"io"
	"net/http"
	"net/http/httptest"
	"os"
	"path/filepath"
	"sync"
	"testing"
	"time"

	"github.com/Dash-Industry-Forum/livesim2/internal/vshim/vh"
)

type raceFreeRT struct{}

func (raceFreeRT) RoundTrip(req *http.Request) (*http.Response, error) {
	if err := req.Context().Err(); err != nil {
		return nil, err
	}
	if req.Body != nil {
		_, _ = io.Copy(io.Discard, req.Body)
		_ = req.Body.Close()
	}
	return &http.Response{StatusCode: 200, Status: "200 OK", Proto: "HTTP/1.1", ProtoMajor: 1, ProtoMinor: 1,
		Header: http.Header{}, Body: io.NopCloser(bytes.NewReader(nil)), Request: req}, nil
}

func raceGet(srv *Server, url string) int {
	req := httptest.NewRequest("GET", url, nil)
	req.RemoteAddr = "127.0.0.1:1234"
	w := httptest.NewRecorder()
	srv.Router.ServeHTTP(w, req)
	return w.Code
}

// raceIngestCycle: create a step-mode session, step it, ask for info, delete it (real goroutines).
func raceIngestCycle(srv *Server, dest string, chunked bool) {
	env := &c16Env{srv: srv}
	url := "/livesim2/testpic_2s/Manifest.mpd"
	if chunked {
		url = "/livesim2/ato_1/chunkdur_1000/testpic_2s/Manifest.mpd"
	}
	code, out := env.api("POST", "/api/cmaf-ingests", map[string]any{"destRoot": "http://receiver.test/up", "destName": dest, "livesimURL": url, "testNowMS": 610000})
	if code != 201 {
		return
	}
	id, _ := out["id"].(string)
	done := make(chan struct{})
	go func() {
		env.api("GET", "/api/cmaf-ingests/"+id+"/step", nil)
		close(done)
	}()
	env.api("GET", "/api/cmaf-ingests/"+id, nil)
	select {
	case <-done:
	case <-time.After(5 * time.Second):
	}
	env.api("GET", "/api/cmaf-ingests/"+id, nil)
	env.api("DELETE", "/api/cmaf-ingests/"+id, nil)
}

func TestVerifRaceC07(t *testing.T) {
	rep := vh.NewReport("C07")
	defer rep.Write()
	http.DefaultClient.Transport = raceFreeRT{}
	srv, err := c07NewServer()
	if err != nil {
		t.Fatalf("server: %v", err)
	}
	srv.cmafMgr = NewCmafIngesterMgr(srv)
	srv.cmafMgr.Start()
	sigma := c07Alphabet(false)
	n := 0
	for i, a := range sigma {
		for j, b := range sigma {
			if j < i {
				continue
			}
			n++
			if !vh.Mine(n) || rep.OutOfBudget() {
				continue
			}
			var wg sync.WaitGroup
			for k, e := range []c07Elem{a, b} {
				wg.Add(1)
				go func(k int, e c07Elem) {
					defer wg.Done()
					if e.url == "" {
						raceIngestCycle(srv, fmt.Sprintf("r%d-%d", n, k), false)
						return
					}
					raceGet(srv, e.url)
				}(k, e)
			}
			wg.Wait()
			rep.AddExecs(1)
			rep.AddStates(1)
			rep.AddTrans(2)
			rep.Hit("C07.racepass")
		}
	}
}

func TestVerifRaceC16(t *testing.T) {
	rep := vh.NewReport("C16")
	defer rep.Write()
	http.DefaultClient.Transport = raceFreeRT{}
	srv, err := vServer(vBundledRoot)
	if err != nil {
		t.Fatalf("server: %v", err)
	}
	sh, _ := vh.Shard()
	for round := 0; round < 6 && !rep.OutOfBudget(); round++ {
		srv.cmafMgr = NewCmafIngesterMgr(srv)
		srv.cmafMgr.Start()
		var wg sync.WaitGroup
		for k := 0; k < 3; k++ {
			wg.Add(1)
			go func(k int) {
				defer wg.Done()
				raceIngestCycle(srv, fmt.Sprintf("s%d-%d-%d", sh, round, k), (k+sh)%2 == 1)
			}(k)
		}
		wg.Wait()
		rep.AddExecs(1)
		rep.AddStates(1)
		rep.AddTrans(3)
		rep.Hit("C16.racepass")
	}
}

func TestVerifRaceC20(t *testing.T) {
	rep := vh.NewReport("C20")
	defer rep.Write()
	dir, err := os.MkdirTemp(os.Getenv("VERIF_SCRATCH"), "c20race")
	if err != nil {
		t.Fatalf("scratch: %v", err)
	}
	defer os.RemoveAll(dir)
	rounds := 20
	if vh.Quick() {
		rounds = 5
	}
	for round := 0; round < rounds && !rep.OutOfBudget(); round++ {
		start := time.Now()
		lim, err := NewIPRequestLimiter(5, 20*time.Millisecond, start, "10.0.0.0/8", filepath.Join(dir, "log.json"))
		if err != nil {
			t.Fatalf("limiter: %v", err)
		}
		srv := &Server{reqLimiter: lim}
		var wg sync.WaitGroup
		for k := 0; k < 6; k++ {
			wg.Add(1)
			go func(k int) {
				defer wg.Done()
				for i := 0; i < 40; i++ {
					next := http.HandlerFunc(func(w http.ResponseWriter, r *http.Request) { w.WriteHeader(200) })
					h := NewLimiterMiddleware("Livesim2-Requests", lim)(next)
					r := httptest.NewRequest("GET", "/livesim2/x.mpd", nil)
					r.RemoteAddr = fmt.Sprintf("1.2.3.%d:1000", k%3)
					h.ServeHTTP(httptest.NewRecorder(), r)
					if i%8 == 0 {
						time.Sleep(7 * time.Millisecond) // cross interval boundaries
					}
				}
			}(k)
		}
		wg.Add(1)
		go func() {
			defer wg.Done()
			for i := 0; i < 30; i++ {
				r := httptest.NewRequest("GET", "/reqcount", nil)
				r.RemoteAddr = "1.2.3.1:1000"
				srv.reqCountHandlerFunc(httptest.NewRecorder(), r)
				time.Sleep(time.Millisecond)
			}
		}()
		wg.Wait()
		rep.AddExecs(1)
		rep.AddStates(1)
		rep.AddTrans(270)
		rep.Hit("C20.racepass")
	}
}
