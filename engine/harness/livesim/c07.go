package app

// C07 — responses are a pure function of (URL, instant); concurrent serving is race-free.
//
// One request alphabet (MPD types, init, media, re-segmented audio, subtitles, thumbnails,
// generated subtitles, ECCP/CPIX encryption, chunked low latency, patch, multi-period, vod,
// urlgen/assets pages, and a CMAF-ingest session cycle as a history element) is used by four
// exhaustive parts:
//   H  histories: explicit-state search keyed by a deep digest of the shared server state
//      (assets, representations, init/encryption data, configuration), plus every ordered
//      pair of requests on one long-running server; response(h.r) must equal fresh(r);
//   S  schedules: every ordered pair as two threads under the vrt scheduler (scheduling
//      points at locks, pool operations and response writes), vector-clock race detection,
//      responses must equal the solo responses;
//   M  map orders: every request under sorted, reversed and every single rotation choice of
//      each ranged map;
//   I  instances: a server that loaded its representation data from the metadata cache
//      answers the alphabet like a scanning one.

import (
	"bytes"
	"crypto/sha1"
	"encoding/binary"
	"errors"
	"fmt"
	"hash"
	"math"
	"net/http"
	"net/http/httptest"
	"os"
	"os/exec"
	"path/filepath"
	"reflect"
	"sort"
	"strings"
	"testing"
	"unsafe"

	"github.com/Dash-Industry-Forum/livesim2/internal/vshim/vh"
	"github.com/Dash-Industry-Forum/livesim2/internal/vshim/vrt"
	"github.com/Dash-Industry-Forum/livesim2/pkg/drm"
)

// ---- deep digest of shared state -------------------------------------------------------

type c07Key struct {
	p unsafe.Pointer
	t reflect.Type
}

type c07Hasher struct {
	h    hash.Hash
	seen map[c07Key]int
	n    int64
	buf  [8]byte
}

func (d *c07Hasher) u64(x uint64) {
	binary.LittleEndian.PutUint64(d.buf[:], x)
	d.h.Write(d.buf[:])
}

func (d *c07Hasher) str(s string) { d.u64(uint64(len(s))); d.h.Write([]byte(s)) }

func (d *c07Hasher) val(v reflect.Value) {
	d.n++
	if !v.IsValid() {
		d.str("!nil")
		return
	}
	t := v.Type()
	if pk := t.PkgPath(); strings.Contains(pk, "/vshim/") || pk == "sync" || pk == "sync/atomic" {
		d.str("!sync")
		return
	}
	switch v.Kind() {
	case reflect.Bool:
		if v.Bool() {
			d.u64(1)
		} else {
			d.u64(0)
		}
	case reflect.Int, reflect.Int8, reflect.Int16, reflect.Int32, reflect.Int64:
		d.u64(uint64(v.Int()))
	case reflect.Uint, reflect.Uint8, reflect.Uint16, reflect.Uint32, reflect.Uint64, reflect.Uintptr:
		d.u64(v.Uint())
	case reflect.Float32, reflect.Float64:
		d.u64(math.Float64bits(v.Float()))
	case reflect.Complex64, reflect.Complex128:
		c := v.Complex()
		d.u64(math.Float64bits(real(c)))
		d.u64(math.Float64bits(imag(c)))
	case reflect.String:
		d.str(v.String())
	case reflect.Ptr:
		if v.IsNil() {
			d.str("!nilptr")
			return
		}
		k := c07Key{v.UnsafePointer(), t}
		if i, ok := d.seen[k]; ok {
			d.str("!ref")
			d.u64(uint64(i))
			return
		}
		d.seen[k] = len(d.seen)
		d.val(v.Elem())
	case reflect.Interface:
		if v.IsNil() {
			d.str("!nilif")
			return
		}
		d.str(v.Elem().Type().String())
		d.val(v.Elem())
	case reflect.Slice:
		if v.IsNil() {
			d.str("!nilslice")
			return
		}
		d.u64(uint64(v.Len()))
		if t.Elem().Kind() == reflect.Uint8 {
			d.h.Write(v.Bytes())
			return
		}
		for i := 0; i < v.Len(); i++ {
			d.val(v.Index(i))
		}
	case reflect.Array:
		for i := 0; i < v.Len(); i++ {
			d.val(v.Index(i))
		}
	case reflect.Map:
		if v.IsNil() {
			d.str("!nilmap")
			return
		}
		type kv struct {
			k string
			v reflect.Value
		}
		var items []kv
		it := v.MapRange()
		for it.Next() {
			kd := &c07Hasher{h: sha1.New(), seen: map[c07Key]int{}}
			kd.val(it.Key())
			items = append(items, kv{string(kd.h.Sum(nil)), it.Value()})
		}
		sort.Slice(items, func(i, j int) bool { return items[i].k < items[j].k })
		d.u64(uint64(len(items)))
		for _, it := range items {
			d.h.Write([]byte(it.k))
			d.val(it.v)
		}
	case reflect.Struct:
		if !v.CanAddr() {
			nv := reflect.New(t).Elem()
			nv.Set(v)
			v = nv
		}
		for i := 0; i < v.NumField(); i++ {
			f := v.Field(i)
			f = reflect.NewAt(f.Type(), unsafe.Pointer(f.UnsafeAddr())).Elem() // drop the read-only flag of unexported fields
			d.val(f)
		}
	default: // func, chan, unsafe pointer
		d.str("!opaque")
	}
}

// c07Digest hashes everything reachable from the asset manager and the server configuration.
func c07Digest(s *Server) (string, int64) {
	d := &c07Hasher{h: sha1.New(), seen: map[c07Key]int{}}
	d.val(reflect.ValueOf(s.assetMgr))
	d.val(reflect.ValueOf(s.Cfg))
	return fmt.Sprintf("%x", d.h.Sum(nil)), d.n
}

// ---- the alphabet -----------------------------------------------------------------------

type c07Elem struct {
	name string
	url  string // "" for the ingest-session cycle
	cmp  bool   // response is compared (livesim2 / patch / vod responses)
}

func c07Alphabet(quick bool) []c07Elem {
	var out []c07Elem
	add := func(url string) { out = append(out, c07Elem{name: url, url: url, cmp: true}) }
	for _, u := range []string{
		"/livesim2/testpic_2s/Manifest.mpd?nowMS=610000",
		"/livesim2/segtimeline_1/testpic_2s/Manifest.mpd?nowMS=610000",
		"/livesim2/segtimelinenr_1/testpic_2s/Manifest.mpd?nowMS=610000",
		"/livesim2/periods_60/testpic_2s/Manifest.mpd?nowMS=610000",
		"/livesim2/testpic_2s/Manifest_imsc1.mpd?nowMS=610000",
		"/livesim2/testpic_2s/Manifest_thumbs.mpd?nowMS=610000",
		"/livesim2/timesubsstpp_en,sv/testpic_2s/Manifest.mpd?nowMS=610000",
		"/livesim2/eccp_cenc/testpic_2s/Manifest.mpd?nowMS=610000",
		"/livesim2/drm_EZDRM-1-key-cbcs-test/testpic_2s/Manifest.mpd?nowMS=610000",
		"/livesim2/patch_60/testpic_2s/Manifest.mpd?nowMS=610000",
		"/livesim2/scte35_1/testpic_2s/Manifest.mpd?nowMS=610000",
		"/livesim2/ato_1/chunkdur_1000/testpic_2s/Manifest.mpd?nowMS=610000",
		"/livesim2/testpic_8s/Manifest.mpd?nowMS=610000",
		"/livesim2/segtimeline_1/testpic_alt_seg_dur_stl/Manifest.mpd?nowMS=610000",
		"/livesim2/bbb_hevc_ac3_8s/manifest.mpd?nowMS=610000",
		// init segments
		"/livesim2/testpic_2s/V300/init.mp4?nowMS=610000",
		"/livesim2/testpic_2s/A48/init.mp4?nowMS=610000",
		"/livesim2/eccp_cenc/testpic_2s/V300/init.mp4?nowMS=610000",
		"/livesim2/eccp_cbcs/testpic_2s/A48/init.mp4?nowMS=610000",
		"/livesim2/drm_EZDRM-1-key-cbcs-test/testpic_2s/V300/init.mp4?nowMS=610000",
		"/livesim2/drm_EZDRM-2-keys-cbcs-test/testpic_2s/V300/init.mp4?nowMS=610000",
		"/livesim2/drm_EZDRM-2-keys-cbcs-test/testpic_2s/A48/init.mp4?nowMS=610000",
		"/livesim2/eccp_cbcs/testpic_2s/V300/init.mp4?nowMS=610000",
		// the same representation id and init name in another asset, under the same DRM names
		"/livesim2/drm_EZDRM-1-key-cbcs-test/testpic_8s/V300/init.mp4?nowMS=610000",
		"/livesim2/drm_EZDRM-2-keys-cbcs-test/testpic_8s/A48/init.mp4?nowMS=610000",
		"/livesim2/eccp_cbcs/testpic_8s/V300/init.mp4?nowMS=610000",
		"/livesim2/timesubsstpp_en,sv/testpic_2s/timestpp-en/init.mp4?nowMS=610000",
		// media: 300 and 304 map to the same VoD file one loop apart
		"/livesim2/testpic_2s/V300/300.m4s?nowMS=610000",
		"/livesim2/testpic_2s/V300/304.m4s?nowMS=620000",
		"/livesim2/testpic_2s/A48/300.m4s?nowMS=610000",
		"/livesim2/eccp_cenc/testpic_2s/V300/300.m4s?nowMS=610000",
		"/livesim2/eccp_cbcs/testpic_2s/V300/300.m4s?nowMS=610000",
		"/livesim2/eccp_cbcs/testpic_2s/V300/304.m4s?nowMS=620000",
		"/livesim2/eccp_cenc/testpic_2s/A48/300.m4s?nowMS=610000",
		"/livesim2/drm_EZDRM-1-key-cbcs-test/testpic_2s/V300/300.m4s?nowMS=610000",
		"/livesim2/drm_EZDRM-2-keys-cbcs-test/testpic_2s/V300/300.m4s?nowMS=610000",
		"/livesim2/segtimeline_1/testpic_2s/V300/54000000.m4s?nowMS=610000",
		"/livesim2/testpic_2s/imsc1_txt_sv/300.m4s?nowMS=610000",
		"/livesim2/testpic_2s/imsc1_img_en/300.m4s?nowMS=610000",
		"/livesim2/testpic_2s/thumbs/300.jpg?nowMS=610000",
		"/livesim2/timesubsstpp_en,sv/testpic_2s/timestpp-en/300.m4s?nowMS=610000",
		"/livesim2/timesubswvtt_en/testpic_2s/timewvtt-en/300.m4s?nowMS=610000",
		// a second generated-subtitle request with other content (language, number) and a second SCTE-35 carrier with another event
		"/livesim2/timesubsstpp_en,sv/testpic_2s/timestpp-sv/301.m4s?nowMS=610000",
		"/livesim2/timesubswvtt_en/testpic_2s/timewvtt-en/301.m4s?nowMS=610000",
		"/livesim2/scte35_2/testpic_2s/V300/301.m4s?nowMS=610000",
		"/livesim2/scte35_2/testpic_2s/V300/331.m4s?nowMS=670000",
		"/livesim2/scte35_1/testpic_2s/V300/300.m4s?nowMS=610000",
		"/livesim2/ato_1/chunkdur_1000/testpic_2s/V300/300.m4s?nowMS=601500",
		"/livesim2/ato_1/chunkdur_1000/testpic_2s/A48/300.m4s?nowMS=601500",
		"/livesim2/eccp_cenc/ato_1/chunkdur_1000/testpic_2s/V300/300.m4s?nowMS=601500",
		"/livesim2/testpic_8s/A48/75.m4s?nowMS=610000",
		"/livesim2/testpic_8s/V300/75.m4s?nowMS=610000",
		"/livesim2/bbb_hevc_ac3_8s/audio_300.m4s?nowMS=610000",
		"/livesim2/bbb_hevc_ac3_8s/video_300.m4s?nowMS=610000",
		"/livesim2/segtimeline_1/testpic_alt_seg_dur_stl/Manifest.mpd?nowMS=7000",
		// cyclic status codes with different start numbers in the same cycle
		"/livesim2/statuscode_%5B%7Bcycle:30,rsq:0,code:404%7D%5D/testpic_2s/V300/30.m4s?nowMS=90000",
		"/livesim2/statuscode_%5B%7Bcycle:30,rsq:0,code:404%7D%5D/testpic_2s/V300/31.m4s?nowMS=90000",
		"/livesim2/snr_10/statuscode_%5B%7Bcycle:30,rsq:0,code:404%7D%5D/testpic_2s/V300/40.m4s?nowMS=90000",
		"/livesim2/snr_10/statuscode_%5B%7Bcycle:30,rsq:0,code:404%7D%5D/testpic_2s/V300/41.m4s?nowMS=90000",
		"/livesim2/start_20/statuscode_%5B%7Bcycle:30,rsq:1,code:410%7D%5D/testpic_2s/A48/31.m4s?nowMS=90000",
		// patch, vod, pages
		"/patch/livesim2/patch_60/testpic_2s/Manifest.mpp?publishTime=1970-01-01T00%3A10%3A00Z&nowMS=620000",
		"/patch/livesim2/patch_60/segtimeline_1/testpic_2s/Manifest.mpp?publishTime=1970-01-01T00%3A10%3A00Z&nowMS=620000",
		"/vod/testpic_2s/Manifest.mpd",
		"/vod/testpic_2s/V300/1.m4s",
	} {
		add(u)
	}
	for _, u := range []string{"/assets", "/urlgen/", "/urlgen/create?asset=testpic_2s&mpd=Manifest.mpd&stl=nr&tsbd=30", "/config"} {
		out = append(out, c07Elem{name: u, url: u, cmp: false})
	}
	out = append(out, c07Elem{name: "api:ingest-session-cycle"})
	out = append(out, c07Elem{name: "api:ingest-session-cycle:timesubs"})
	_ = quick
	return out
}

type c07Resp struct {
	code  int
	ctype string
	sum   [20]byte
	n     int
}

func (a c07Resp) eq(b c07Resp) bool { return a == b }

func (a c07Resp) String() string {
	return fmt.Sprintf("%d %q %d bytes sha1 %x", a.code, a.ctype, a.n, a.sum[:6])
}

// c07Writer is a response writer whose Write is a scheduling point (a network write is where
// a handler can be descheduled while it still refers to a buffer).
type c07Writer struct {
	h    http.Header
	buf  bytes.Buffer
	code int
	pts  bool
	fail bool // the client has gone: every Write fails
}

func (w *c07Writer) Header() http.Header { return w.h }
func (w *c07Writer) WriteHeader(c int) {
	if w.code == 0 {
		w.code = c
	}
}
func (w *c07Writer) Flush() {}
func (w *c07Writer) Write(b []byte) (int, error) {
	if w.pts {
		if s := vrt.Cur(); s != nil {
			s.Point("net-write")
		}
	}
	if w.code == 0 {
		w.code = 200
	}
	if w.fail {
		return 0, errors.New("write: broken pipe")
	}
	return w.buf.Write(b)
}

// c07Abort serves e to a client that has gone (every response write fails).
func c07Abort(srv *Server, e c07Elem) {
	if e.url == "" {
		return
	}
	req := httptest.NewRequest("GET", e.url, nil)
	req.RemoteAddr = "127.0.0.1:1234"
	srv.Router.ServeHTTP(&c07Writer{h: http.Header{}, fail: true}, req)
}

func c07Serve(srv *Server, e c07Elem, pts bool) c07Resp {
	if e.url == "" {
		c07IngestCycle(srv, strings.HasSuffix(e.name, ":timesubs"))
		return c07Resp{}
	}
	req := httptest.NewRequest("GET", e.url, nil)
	req.RemoteAddr = "127.0.0.1:1234"
	w := &c07Writer{h: http.Header{}, pts: pts}
	srv.Router.ServeHTTP(w, req)
	if w.code == 0 {
		w.code = 200
	}
	return c07Resp{code: w.code, ctype: w.h.Get("Content-Type"), sum: sha1.Sum(w.buf.Bytes()), n: w.buf.Len()}
}

// c07IngestCycle creates a step-mode ingest session, steps it once and deletes it (must run
// under the scheduler; the receiver is C16's scripted transport).
func c07IngestCycle(srv *Server, timesubs bool) {
	s := vrt.Cur()
	if s == nil {
		return
	}
	env := &c16Env{srv: srv}
	c16Cur = &c16Recv{}
	cfg := c16Cfg{name: "number", mpd: "Manifest.mpd"}
	if timesubs {
		cfg = c16Cfg{name: "number-timesubs", prefix: "timesubsstpp_en,sv/", mpd: "Manifest.mpd"}
	}
	ss, err := env.create(s, cfg, "c07", c16P(610000), nil)
	if err != nil {
		s.Fail("setup", "ingest cycle: "+err.Error())
		return
	}
	vrt.Go(func() { env.step(ss) })
	env.api("GET", "/api/cmaf-ingests/"+ss.id, nil)
	s.Sleep(3000 * 1e6)
	env.del(ss)
	s.Sleep(3000 * 1e6)
}

// c07NestedRoot builds a VoD root with asset outer (bundled testpic_2s) and asset outer/inner (bundled testpic_8s).
func c07NestedRoot() (string, error) {
	root, err := os.MkdirTemp(os.Getenv("VERIF_SCRATCH"), "c07nest")
	if err != nil {
		return "", err
	}
	if err := os.CopyFS(filepath.Join(root, "outer"), os.DirFS(filepath.Join(vBundledRoot, "testpic_2s"))); err != nil {
		return "", err
	}
	if err := os.CopyFS(filepath.Join(root, "outer", "inner"), os.DirFS(filepath.Join(vBundledRoot, "testpic_8s"))); err != nil {
		return "", err
	}
	// an asset whose VoD MPD carries UTCTiming elements of its own (shared, parsed MPD state that utc_ requests extend)
	if err := os.CopyFS(filepath.Join(root, "utc3"), os.DirFS(filepath.Join(vBundledRoot, "testpic_2s"))); err != nil {
		return "", err
	}
	mp := filepath.Join(root, "utc3", "Manifest.mpd")
	if raw, err := os.ReadFile(mp); err == nil {
		ut := `  <UTCTiming schemeIdUri="urn:mpeg:dash:utc:http-iso:2014" value="https://time.example.com/a"/>
  <UTCTiming schemeIdUri="urn:mpeg:dash:utc:http-iso:2014" value="https://time.example.com/b"/>
  <UTCTiming schemeIdUri="urn:mpeg:dash:utc:http-head:2014" value="https://time.example.com/c"/>
`
		_ = os.WriteFile(mp, []byte(strings.Replace(string(raw), "</MPD>", ut+"</MPD>", 1)), 0o644)
	}
	// a sibling whose name starts with the name of another asset
	if err := os.CopyFS(filepath.Join(root, "outer_long"), os.DirFS(filepath.Join(vBundledRoot, "testpic_6s"))); err != nil {
		return "", err
	}
	return root, nil
}

func c07NewServer() (*Server, error) {
	srv, err := vNewServer(vBundledRoot, "", false)
	if err != nil {
		return nil, err
	}
	dc, err := drm.ReadDrmConfig(c10DrmCfg)
	if err != nil {
		return nil, err
	}
	srv.Cfg.DrmCfg = dc
	return srv, nil
}

// TestVerifC07FreshChild is run by TestVerifC07 in a process of its own: it serves the alphabet in reverse order,
// every request on a server of its own, and prints what each request was answered.
func TestVerifC07FreshChild(t *testing.T) {
	if os.Getenv("VERIF_C07_CHILD") == "" {
		t.Skip("only as a child process of TestVerifC07")
	}
	http.DefaultClient.Transport = c16RT{}
	sigma := c07Alphabet(vh.Quick())
	opts := vrt.RunOpts{Race: false, AllowBlockedDaemons: true, NoUnlockPoints: true, StartNS: 610000 * 1e6, WatchdogS: 120, EndWithMain: true}
	for i := len(sigma) - 1; i >= 0; i-- {
		e := sigma[i]
		if !e.cmp {
			continue
		}
		srv, err := c07NewServer()
		if err != nil {
			t.Fatalf("server: %v", err)
		}
		var r c07Resp
		x := vrt.Run(nil, opts, func(s *vrt.Sched) { r = c07Serve(srv, e, false) })
		if len(x.Fails) > 0 || x.Hung {
			continue // judged in the parent, which then misses this answer
		}
		fmt.Printf("C07FRESH\t%s\t%s\n", e.name, r.String())
	}
}

func TestVerifC07(t *testing.T) {
	rep := vh.NewReport("C07")
	defer rep.Write()
	quick := vh.Quick()
	http.DefaultClient.Transport = c16RT{}
	sigma := c07Alphabet(quick)
	sh, nsh := vh.Shard()
	opts := vrt.RunOpts{Race: true, AllowBlockedDaemons: true, NoUnlockPoints: true, StartNS: 610000 * 1e6, WatchdogS: 120, EndWithMain: true}
	under := func(body func(s *vrt.Sched)) *vrt.Result { return vrt.Run(nil, opts, body) }
	reportFails := func(x *vrt.Result, ctx string) {
		for _, f := range x.Fails {
			clause, sig := "C07.crash", f.Sig+":"+ctx
			if strings.HasPrefix(f.Sig, "race:") {
				clause, sig = "C07.race", f.Sig
			}
			if f.Sig == "setup" {
				t.Fatalf("setup: %s", f.Msg)
			}
			rep.Violate(clause, sig, f.Msg, map[string]any{"context": ctx})
		}
		if x.Hung {
			rep.Violate("C07.crash", "hang:"+ctx, "execution did not finish", nil)
		}
	}

	// ---- fresh(r): every request on a server of its own
	fresh := make([]c07Resp, len(sigma))
	var s0 string
	for i, e := range sigma {
		srv, err := c07NewServer()
		if err != nil {
			t.Fatalf("server: %v", err)
		}
		if i == 0 {
			var n int64
			s0, n = c07Digest(srv)
			rep.Extra["digest_values_hashed"] = n
		}
		x := under(func(s *vrt.Sched) { fresh[i] = c07Serve(srv, e, false) })
		reportFails(x, "fresh:"+e.name)
		if e.cmp && fresh[i].code != 200 {
			rep.Note("alphabet element %s answers %d on a fresh server", e.name, fresh[i].code)
			fmt.Printf("C07: alphabet element %s answers %d on a fresh server\n", e.name, fresh[i].code)
		}
	}
	rep.Extra["alphabet"] = len(sigma)
	// ---- fresh(r) again in a process of its own (this test binary started once more) and in the reverse order,
	// again every request on a server of its own: state kept outside the server instance (a package-level
	// cache) makes this process's answers a matter of the order of the alphabet, and every later comparison
	// in this process would agree with them; in the child process the other order is the history
	if sh == 0 {
		cmd := exec.Command(os.Args[0], "-test.run", "^TestVerifC07FreshChild$", "-test.count=1")
		cmd.Env = append(os.Environ(), "VERIF_C07_CHILD=reverse")
		out, err := cmd.Output()
		got := map[string]string{}
		for _, ln := range strings.Split(string(out), "\n") {
			if f := strings.SplitN(ln, "\t", 3); len(f) == 3 && f[0] == "C07FRESH" {
				got[f[1]] = f[2]
			}
		}
		if err != nil && len(got) == 0 {
			t.Fatalf("child process for the reverse-order pass: %v (%d bytes of output)", err, len(out))
		}
		for i, e := range sigma {
			if !e.cmp {
				continue
			}
			rep.AddExecs(1)
			rep.Hit("C07.history")
			g, ok := got[e.name]
			if !ok {
				rep.Violate("C07.crash", "child-process-died:"+c07Kind(e.name), fmt.Sprintf("the process serving the alphabet in reverse order gave no answer for %s (%v)", e.name, err), map[string]any{"request": e.name})
				break
			}
			if g != fresh[i].String() {
				rep.Violate("C07.history", "response-depends-on-process-history:"+c07Kind(e.name), fmt.Sprintf("%s answers %s on a fresh server in a process that served the alphabet in reverse order (each request on a server of its own), %v in this process (forward order): state outside the server instance", e.name, g, fresh[i]),
					map[string]any{"request": e.name})
			}
		}
		rep.Extra["reverse_order_process_answers"] = len(got)
	}

	// ---- H1: explicit-state search keyed by the state digest (worker 0)
	if sh == 0 {
		type node struct{ hist []int }
		seen := map[string]bool{s0: true}
		frontier := []node{{nil}}
		states, trans := 1, 0
		maxStates := 40
		for len(frontier) > 0 && states <= maxStates {
			nd := frontier[0]
			frontier = frontier[1:]
			build := func() (*Server, string) {
				srv, err := c07NewServer()
				if err != nil {
					t.Fatalf("server: %v", err)
				}
				for _, k := range nd.hist {
					under(func(s *vrt.Sched) { c07Serve(srv, sigma[k], false) })
				}
				d, _ := c07Digest(srv)
				return srv, d
			}
			srv, cur := build()
			for k, e := range sigma {
				var r c07Resp
				x := under(func(s *vrt.Sched) { r = c07Serve(srv, e, false) })
				reportFails(x, "history:"+e.name)
				trans++
				rep.Hit("C07.history")
				if e.cmp && !r.eq(fresh[k]) {
					rep.Violate("C07.history", "response-depends-on-history:"+c07Kind(e.name), fmt.Sprintf("%s answers %v after history %v, a fresh server answers %v", e.name, r, c07Names(sigma, nd.hist), fresh[k]),
						map[string]any{"history": c07Names(sigma, nd.hist), "request": e.name})
				}
				after, _ := c07Digest(srv)
				if after != cur {
					if !seen[after] {
						seen[after] = true
						states++
						frontier = append(frontier, node{append(append([]int{}, nd.hist...), k)})
					}
					srv, cur = build() // back to the state of this node
				}
			}
		}
		rep.AddStates(int64(states))
		rep.AddTrans(int64(trans))
		rep.Extra["history_states"] = states
		rep.Extra["history_transitions"] = trans
		if len(frontier) > 0 {
			rep.Cap(fmt.Sprintf("history_states>%d", maxStates))
		}
		rep.Sample(map[string]any{"part": "H1", "reachable_shared_states": states, "transitions": trans})
	}

	// ---- H2: every ordered pair on one long-running server per worker
	{
		srv, err := c07NewServer()
		if err != nil {
			t.Fatalf("server: %v", err)
		}
		pairs := 0
		for i, a := range sigma {
			if i%nsh != sh {
				continue
			}
			for j, b := range sigma {
				var rb c07Resp
				x := under(func(s *vrt.Sched) {
					c07Serve(srv, a, false)
					rb = c07Serve(srv, b, false)
				})
				reportFails(x, "pair:"+c07Kind(a.name)+"+"+c07Kind(b.name))
				pairs++
				rep.Hit("C07.history")
				if b.cmp && !rb.eq(fresh[j]) {
					rep.Violate("C07.history", "response-depends-on-history:"+c07Kind(b.name), fmt.Sprintf("%s answers %v on a long-running server (just after %s), a fresh server answers %v", b.name, rb, a.name, fresh[j]),
						map[string]any{"previous": a.name, "request": b.name})
				}
			}
		}
		rep.AddTrans(int64(2 * pairs))
		rep.AddExecs(int64(pairs))
		rep.Extra["ordered_pairs_sequential"] = pairs
	}

	// ---- S: every ordered pair concurrently under the scheduler
	{
		srv, err := c07NewServer()
		if err != nil {
			t.Fatalf("server: %v", err)
		}
		bound := 1
		if !quick {
			bound = 2
		}
		rep.Bound = bound
		n := 0
		for i, a := range sigma {
			for j, b := range sigma {
				n++
				if !vh.Mine(n) {
					continue
				}
				if rep.OutOfBudget() {
					rep.Cap("budget")
					break
				}
				if a.url == "" && b.url == "" {
					continue // two session cycles share the scripted receiver of C16; covered there
				}
				i, j, a, b := i, j, a, b
				body := func(s *vrt.Sched) {
					var ra, rb c07Resp
					ha := s.Spawn("a", func() { ra = c07Serve(srv, a, true) })
					hb := s.Spawn("b", func() { rb = c07Serve(srv, b, true) })
					s.Join(ha, hb)
					if a.cmp && !ra.eq(fresh[i]) {
						s.Fail("C07.concurrent:response-depends-on-concurrency:"+c07Kind(a.name), fmt.Sprintf("%s answers %v while %s is served concurrently, alone it answers %v", a.name, ra, b.name, fresh[i]))
					}
					if b.cmp && !rb.eq(fresh[j]) {
						s.Fail("C07.concurrent:response-depends-on-concurrency:"+c07Kind(b.name), fmt.Sprintf("%s answers %v while %s is served concurrently, alone it answers %v", b.name, rb, a.name, fresh[j]))
					}
				}
				maxExec := 2500
				if !quick {
					maxExec = 5000
				}
				st := vrt.Explore(vrt.ExploreOpts{RunOpts: opts, Bound: bound, MaxExec: maxExec, DeadlineUnix: rep.DeadlineUnix(), FreeCost: 1}, body)
				if !st.Hung {
					// second canonical schedule: the thread started later runs first
					ropts := opts
					ropts.ReverseOrder = true
					st2 := vrt.Explore(vrt.ExploreOpts{RunOpts: ropts, Bound: 1, MaxExec: maxExec, DeadlineUnix: rep.DeadlineUnix(), FreeCost: 1}, body)
					st.Executions += st2.Executions
					st.Points += st2.Points
					st.Hung = st2.Hung
					st.CapsHit = append(st.CapsHit, st2.CapsHit...)
					have := map[string]bool{}
					for _, f := range st.Failures {
						have[f.Sig] = true
					}
					for _, f := range st2.Failures {
						if !have[f.Sig] {
							st.Failures = append(st.Failures, f)
						}
					}
				}
				rep.AddExecs(int64(st.Executions))
				rep.AddStates(int64(st.Points))
				rep.Hit("C07.concurrent")
				rep.Hit("C07.race")
				for _, c := range st.CapsHit {
					rep.Cap("pair:" + c)
				}
				if st.Hung {
					rep.Violate("C07.crash", "hang:concurrent", fmt.Sprintf("%s || %s did not finish", a.name, b.name), nil)
					rep.Cap("hang")
					return
				}
				for _, f := range st.Failures {
					clause, sig := "C07.crash", f.Sig
					switch {
					case strings.HasPrefix(f.Sig, "race:"):
						clause = "C07.race"
					case strings.HasPrefix(f.Sig, "C07."):
						p := strings.SplitN(f.Sig, ":", 2)
						clause, sig = p[0], p[1]
					case f.Sig == "engine:replay-divergence":
						// the executions of a pair share one server: the same schedule took another path through the code than
						// before, so an earlier request has changed what this one does. The pair is not explored any further
						// (histories are judged by parts H1, H2 and N); the run is reported as not exhaustive.
						rep.Cap("pair: replay diverged on a shared server (control flow depends on earlier requests)")
						rep.Note("replay divergence for %s || %s: %s", a.name, b.name, f.Msg)
						continue
					case strings.HasPrefix(f.Sig, "engine:"):
						t.Fatalf("engine: %s %s", f.Sig, f.Msg)
					}
					rep.Violate(clause, sig, f.Msg, map[string]any{"a": a.name, "b": b.name, "choices": f.Choices})
				}
			}
		}
	}

	// ---- S2: a response that could not be written (client gone), then the same request twice and
	// with its neighbour concurrently: resources handed back on the error path must not be shared
	{
		srv, err := c07NewServer()
		if err != nil {
			t.Fatalf("server: %v", err)
		}
		for i, e := range sigma {
			if e.url == "" || !vh.Mine(i) {
				continue
			}
			for _, j := range []int{i, (i + 1) % len(sigma)} {
				b := sigma[j]
				if b.url == "" {
					continue
				}
				i, j, e, b := i, j, e, b
				body := func(s *vrt.Sched) {
					c07Abort(srv, e)
					var ra, rb c07Resp
					ha := s.Spawn("a", func() { ra = c07Serve(srv, e, true) })
					hb := s.Spawn("b", func() { rb = c07Serve(srv, b, true) })
					s.Join(ha, hb)
					if e.cmp && !ra.eq(fresh[i]) {
						s.Fail("C07.concurrent:response-depends-on-concurrency:after-aborted-response:"+c07Kind(e.name), fmt.Sprintf("%s answers %v while %s is served concurrently after a response to %s could not be written; alone it answers %v", e.name, ra, b.name, e.name, fresh[i]))
					}
					if b.cmp && !rb.eq(fresh[j]) {
						s.Fail("C07.concurrent:response-depends-on-concurrency:after-aborted-response:"+c07Kind(b.name), fmt.Sprintf("%s answers %v while %s is served concurrently after a response to %s could not be written; alone it answers %v", b.name, rb, e.name, e.name, fresh[j]))
					}
				}
				st := vrt.Explore(vrt.ExploreOpts{RunOpts: opts, Bound: 1, MaxExec: 2500, DeadlineUnix: rep.DeadlineUnix(), FreeCost: 1}, body)
				rep.AddExecs(int64(st.Executions))
				rep.AddStates(int64(st.Points))
				rep.Hit("C07.concurrent")
				for _, f := range st.Failures {
					clause, sig := "C07.crash", f.Sig
					switch {
					case strings.HasPrefix(f.Sig, "race:"):
						clause = "C07.race"
					case strings.HasPrefix(f.Sig, "C07."):
						p := strings.SplitN(f.Sig, ":", 2)
						clause, sig = p[0], p[1]
					}
					rep.Violate(clause, sig, f.Msg, map[string]any{"aborted": e.name, "a": e.name, "b": b.name, "choices": f.Choices})
				}
			}
		}
	}

	// ---- M: map iteration orders
	if sh == nsh-1 || nsh == 1 {
		srv, err := c07NewServer()
		if err != nil {
			t.Fatalf("server: %v", err)
		}
		for k, e := range sigma {
			if !e.cmp {
				continue
			}
			for _, mode := range []int{vrt.MapSorted, vrt.MapReverse} {
				vrt.SetMapMode(mode)
				var r c07Resp
				x := under(func(s *vrt.Sched) { r = c07Serve(srv, e, false) })
				vrt.SetMapMode(vrt.MapNative)
				reportFails(x, "maporder:"+c07Kind(e.name))
				rep.Hit("C07.maporder")
				if !r.eq(fresh[k]) {
					rep.Violate("C07.maporder", "response-depends-on-map-order:"+c07Kind(e.name), fmt.Sprintf("%s answers %v with map order mode %d, %v with the native order", e.name, r, mode, fresh[k]), map[string]any{"request": e.name})
				}
			}
			vrt.SetMapMode(vrt.MapChoice)
			k, e := k, e
			st := vrt.Explore(vrt.ExploreOpts{RunOpts: opts, Bound: 1, MaxExec: 2000}, func(s *vrt.Sched) {
				r := c07Serve(srv, e, false)
				if !r.eq(fresh[k]) {
					s.Fail("C07.maporder:response-depends-on-map-order:"+c07Kind(e.name), fmt.Sprintf("%s answers %v under a rotated map order, %v natively", e.name, r, fresh[k]))
				}
			})
			vrt.SetMapMode(vrt.MapNative)
			rep.AddExecs(int64(st.Executions))
			for _, f := range st.Failures {
				if strings.HasPrefix(f.Sig, "C07.") {
					p := strings.SplitN(f.Sig, ":", 2)
					rep.Violate(p[0], p[1], f.Msg, map[string]any{"request": e.name, "choices": f.Choices})
				}
			}
		}
		rep.Extra["map_ranges_executed"] = vrt.MapRanges.Load()

		// ---- N: an asset directory inside another asset directory (both hold MPDs): the asset a request belongs
		// to must not depend on the iteration order of the asset table
		if nroot, err := c07NestedRoot(); err != nil {
			rep.Note("nested-asset root not built: %v", err)
		} else {
			defer os.RemoveAll(nroot)
			nsrv, err := vNewServer(nroot, "", false)
			if err != nil {
				t.Fatalf("nested-asset server: %v", err)
			}
			nurls := []string{
				"/livesim2/outer/Manifest.mpd?nowMS=610000",
				"/livesim2/outer/inner/Manifest.mpd?nowMS=610000",
				"/livesim2/outer/V300/init.mp4?nowMS=610000",
				"/livesim2/outer/inner/V300/init.mp4?nowMS=610000",
				"/livesim2/outer/V300/300.m4s?nowMS=610000",
				"/livesim2/outer/inner/V300/70.m4s?nowMS=610000",
				"/livesim2/segtimeline_1/outer/inner/Manifest.mpd?nowMS=610000",
				"/vod/outer/inner/Manifest.mpd",
				"/livesim2/outer_long/Manifest.mpd?nowMS=610000",
				"/livesim2/outer_long/V300/100.m4s?nowMS=610000",
				"/livesim2/outer_lon/V300/100.m4s?nowMS=610000",
				"/livesim2/utc_httpiso/utc3/Manifest.mpd?nowMS=610000",
				"/livesim2/utc_ntp-sntp/utc3/Manifest.mpd?nowMS=610000",
				"/livesim2/utc_keep/utc3/Manifest.mpd?nowMS=610000",
				"/livesim2/utc3/Manifest.mpd?nowMS=610000",
			}
			// every ordered pair of these requests on one server: the second answer is that of a fresh server
			nfresh := map[string]c07Resp{}
			for _, u := range nurls {
				fs, err := vNewServer(nroot, "", false)
				if err != nil {
					t.Fatalf("nested-asset server: %v", err)
				}
				x := under(func(s *vrt.Sched) { nfresh[u] = c07Serve(fs, c07Elem{name: u, url: u, cmp: true}, false) })
				reportFails(x, "fresh:nested-asset")
			}
			for _, ua := range nurls {
				for _, ub := range nurls {
					var rb c07Resp
					x := under(func(s *vrt.Sched) {
						c07Serve(nsrv, c07Elem{name: ua, url: ua, cmp: true}, false)
						rb = c07Serve(nsrv, c07Elem{name: ub, url: ub, cmp: true}, false)
					})
					reportFails(x, "pair:nested-asset")
					rep.Hit("C07.history")
					rep.AddExecs(1)
					if !rb.eq(nfresh[ub]) {
						rep.Violate("C07.history", "response-depends-on-history:sibling-or-nested-asset", fmt.Sprintf("%s answers %v after %s on the same server, %v on a fresh server", ub, rb, ua, nfresh[ub]), map[string]any{"first": ua, "second": ub})
					}
				}
			}
			// the utc_ requests concurrently with each other (shared parsed MPD of the asset)
			nBound := 1
			if !quick {
				nBound = 2
			}
			for _, pr := range [][2]string{{nurls[11], nurls[12]}, {nurls[12], nurls[11]}, {nurls[11], nurls[14]}, {nurls[12], nurls[13]}, {nurls[11], nurls[11]}} {
				ua, ub := pr[0], pr[1]
				for _, rev := range []bool{false, true} {
					ro := opts
					ro.ReverseOrder = rev
					st := vrt.Explore(vrt.ExploreOpts{RunOpts: ro, Bound: nBound, MaxExec: 3000, DeadlineUnix: rep.DeadlineUnix(), FreeCost: 1}, func(s *vrt.Sched) {
						var ra, rb c07Resp
						ha := s.Spawn("a", func() { ra = c07Serve(nsrv, c07Elem{name: ua, url: ua, cmp: true}, true) })
						hb := s.Spawn("b", func() { rb = c07Serve(nsrv, c07Elem{name: ub, url: ub, cmp: true}, true) })
						s.Join(ha, hb)
						if !ra.eq(nfresh[ua]) {
							s.Fail("C07.concurrent:response-depends-on-concurrency:mpd+utc", fmt.Sprintf("%s answers %v while %s is served concurrently, alone it answers %v", ua, ra, ub, nfresh[ua]))
						}
						if !rb.eq(nfresh[ub]) {
							s.Fail("C07.concurrent:response-depends-on-concurrency:mpd+utc", fmt.Sprintf("%s answers %v while %s is served concurrently, alone it answers %v", ub, rb, ua, nfresh[ub]))
						}
					})
					rep.AddExecs(int64(st.Executions))
					rep.Hit("C07.concurrent")
					for _, f := range st.Failures {
						clause, sig := "C07.crash", f.Sig
						switch {
						case strings.HasPrefix(f.Sig, "race:"):
							clause = "C07.race"
						case strings.HasPrefix(f.Sig, "C07."):
							p := strings.SplitN(f.Sig, ":", 2)
							clause, sig = p[0], p[1]
						case strings.HasPrefix(f.Sig, "engine:"):
							rep.Cap("pair: " + f.Sig)
							continue
						}
						rep.Violate(clause, sig, f.Msg, map[string]any{"a": ua, "b": ub, "choices": f.Choices})
					}
				}
			}
			for _, u := range nurls {
				e := c07Elem{name: u, url: u, cmp: true}
				var base c07Resp
				for mi, mode := range []int{vrt.MapSorted, vrt.MapReverse} {
					vrt.SetMapMode(mode)
					var r c07Resp
					x := under(func(s *vrt.Sched) { r = c07Serve(nsrv, e, false) })
					vrt.SetMapMode(vrt.MapNative)
					reportFails(x, "maporder:nested-asset")
					rep.Hit("C07.maporder")
					if mi == 0 {
						base = r
					} else if !r.eq(base) {
						rep.Violate("C07.maporder", "response-depends-on-map-order:nested-asset", fmt.Sprintf("%s answers %v with the asset table iterated in ascending order, %v in descending order", u, base, r), map[string]any{"request": u})
					}
				}
				if base.code != 200 {
					rep.Note("nested assets: %s answers %d", u, base.code)
				}
			}
		}
	}

	// ---- I: an instance that loaded its representation data from the metadata cache
	if sh == 0 {
		dir, err := os.MkdirTemp(os.Getenv("VERIF_SCRATCH"), "c07cache")
		if err == nil {
			defer os.RemoveAll(dir)
			if _, err := vNewServer(vBundledRoot, dir, true); err != nil {
				t.Fatalf("cache-writing server: %v", err)
			}
			srv, err := vNewServer(vBundledRoot, dir, false)
			if err != nil {
				t.Fatalf("cache-loading server: %v", err)
			}
			if dc, err := drm.ReadDrmConfig(c10DrmCfg); err == nil {
				srv.Cfg.DrmCfg = dc
			}
			for k, e := range sigma {
				if !e.cmp {
					continue
				}
				var r c07Resp
				x := under(func(s *vrt.Sched) { r = c07Serve(srv, e, false) })
				reportFails(x, "cache-instance:"+c07Kind(e.name))
				rep.Hit("C07.instance")
				if !r.eq(fresh[k]) {
					rep.Violate("C07.instance", "cache-loaded-differs:"+c07Kind(e.name), fmt.Sprintf("%s answers %v on a cache-loaded server, %v on a scanning one", e.name, r, fresh[k]), map[string]any{"request": e.name})
				}
			}
		}
	}
}

func c07Names(sigma []c07Elem, idx []int) []string {
	var out []string
	for _, i := range idx {
		out = append(out, sigma[i].name)
	}
	return out
}

// c07Kind is a short class of a request for signatures (the witness carries the URL).
func c07Kind(name string) string {
	u := name
	if k := strings.Index(u, "?"); k >= 0 {
		u = u[:k]
	}
	switch {
	case strings.HasPrefix(name, "api:"):
		return "api"
	case strings.HasPrefix(u, "/patch/"):
		return "patch"
	case strings.HasPrefix(u, "/vod/"):
		return "vod"
	case !strings.HasPrefix(u, "/livesim2/"):
		return "page"
	}
	kind := "media"
	switch {
	case strings.HasSuffix(u, ".mpd"):
		kind = "mpd"
	case strings.HasSuffix(u, "init.mp4"):
		kind = "init"
	case strings.HasSuffix(u, ".jpg"):
		kind = "thumb"
	}
	for _, f := range []string{"statuscode_", "eccp_", "drm_", "chunkdur_", "timesubs", "scte35", "segtimeline_", "periods_", "imsc1", "A48", "audio_"} {
		if strings.Contains(u, f) {
			kind += "+" + strings.TrimSuffix(f, "_")
		}
	}
	return kind
}
