package vrt

import (
	"fmt"
	"runtime"
	"strings"
	"unsafe"
)

// happens-before race detection on hooked memory locations (FastTrack-like,
// full vector clocks since thread counts are tiny).

type accKey struct {
	p uintptr
}

type accInfo struct {
	tid   int
	clock uint32
	site  string
	pcs   [8]uintptr
	npc   int
}

type shadowCell struct {
	name  string
	write *accInfo
	keep  unsafe.Pointer // keeps the object alive so its address is not reused
	reads map[int]*accInfo
}

// Acquire joins the object's clock into the running thread.
func (s *Sched) Acquire(o *Sync) {
	s.cur.vc.join(o.vc)
}

// Release publishes the running thread's clock on the object.
func (s *Sched) Release(o *Sync) {
	o.vc.join(s.cur.vc)
	s.cur.tick()
}

// ReleaseSet replaces the object's clock by the running thread's (exclusive release).
func (s *Sched) ReleaseSet(o *Sync) {
	o.vc = s.cur.vc.clone()
	s.cur.tick()
}

func (a *accInfo) capture() {
	a.npc = runtime.Callers(3, a.pcs[:])
}

func (a *accInfo) resolve() string {
	if a.site != "" {
		return a.site
	}
	a.site = framesSite(a.pcs[:a.npc])
	return a.site
}

func framesSite(pc []uintptr) string {
	fr := runtime.CallersFrames(pc)
	for {
		f, more := fr.Next()
		if !strings.Contains(f.File, "/vshim/") && f.Function != "" {
			fn := f.Function
			if k := strings.LastIndex(fn, "/"); k >= 0 {
				fn = fn[k+1:]
			}
			return fn
		}
		if !more {
			break
		}
	}
	return "?"
}

func (s *Sched) access(p unsafe.Pointer, name string, write bool) {
	if !s.raceOn || s.aborting || p == nil {
		return
	}
	k := accKey{uintptr(p)}
	c := s.shadow[k]
	if c == nil {
		c = &shadowCell{name: name, reads: map[int]*accInfo{}, keep: p}
		s.shadow[k] = c
	}
	t := s.cur
	me := &accInfo{tid: t.id, clock: t.vc.get(t.id)}
	me.capture()
	report := func(prev *accInfo, prevKind string) {
		kind := "read"
		if write {
			kind = "write"
		}
		a := fmt.Sprintf("%s@%s", prevKind, prev.resolve())
		b := fmt.Sprintf("%s@%s", kind, me.resolve())
		if a > b {
			a, b = b, a
		}
		s.fails = append(s.fails, Failure{Sig: "race:" + name + ":" + a + "~" + b,
			Msg: fmt.Sprintf("data race on %s: %s by t%d and %s by t%d are not ordered by happens-before", name, prevKind, prev.tid, kind, t.id)})
	}
	if w := c.write; w != nil && w.tid != t.id && w.clock > t.vc.get(w.tid) {
		report(w, "write")
	}
	if write {
		for _, r := range c.reads {
			if r.tid != t.id && r.clock > t.vc.get(r.tid) {
				report(r, "read")
			}
		}
		c.write = me
		c.reads = map[int]*accInfo{}
	} else {
		c.reads[t.id] = me
	}
}

// R records a read of *p and returns p (used by rewritten code as *vrt.R(&x.f, "T.f")).
func R[T any](p *T, name string) *T {
	if s := Cur(); s != nil {
		s.access(unsafe.Pointer(p), name, false)
	}
	return p
}

// W records a write of *p and returns p.
func W[T any](p *T, name string) *T {
	if s := Cur(); s != nil {
		s.access(unsafe.Pointer(p), name, true)
	}
	return p
}

// SA wraps the first argument of append(x.f, ...) / append(global, ...): when the slice has spare capacity the
// append writes the element after its end in place, into a backing array that struct copies and re-slices share.
// That element is recorded as written, so that two threads appending in place to slices over one array are
// reported as a write/write race (a shared backing array is invisible to the field hooks: each copy of the
// struct has a slice header of its own).
func SA[S ~[]E, E any](s S, name string) S {
	if sc := Cur(); sc != nil && cap(s) > len(s) {
		sc.access(unsafe.Pointer(&s[:len(s)+1][len(s)]), name, true)
	}
	return s
}
