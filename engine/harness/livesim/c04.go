package app

// C04 — each segment goes 425 -> 200 -> 410 at exactly the right instants.
// E3: per (asset, representation, addressing, start, tsbd, ato, snr, n): a sorted sweep of
// instants (every ms around both transitions) checked against a phase automaton whose
// transition instants come from exact rational arithmetic on the VoD reference.

import (
	"bytes"
	"fmt"
	"math"
	"regexp"
	"sort"
	"strconv"
	"strings"
	"testing"

	"github.com/Dash-Industry-Forum/livesim2/internal/vshim/vh"
	"github.com/Dash-Industry-Forum/livesim2/internal/vshim/vref"
)

type c04Cfg struct {
	root, asset, rep string
	byTime           bool
	tlnr             bool
	start            int64
	tsbd             int64
	atoMS            int64 // -1 = inf
	snr              int   // -1 unset
}

func (c c04Cfg) prefix() string {
	var p []string
	if c.byTime {
		p = append(p, "segtimeline_1")
	} else if c.tlnr {
		p = append(p, "segtimelinenr_1")
	}
	if c.snr >= 0 {
		p = append(p, fmt.Sprintf("snr_%d", c.snr))
	}
	if c.start > 0 {
		p = append(p, fmt.Sprintf("start_%d", c.start))
	}
	p = append(p, fmt.Sprintf("tsbd_%d", c.tsbd))
	switch {
	case c.atoMS < 0:
		p = append(p, "ato_inf")
	case c.atoMS > 0:
		p = append(p, fmt.Sprintf("ato_%d.%03d", c.atoMS/1000, c.atoMS%1000))
	}
	return vCfgPrefix(p...)
}

func (c c04Cfg) String() string {
	return fmt.Sprintf("%s/%s byTime=%v start=%d tsbd=%d atoMS=%d snr=%d", c.asset, c.rep, c.byTime, c.start, c.tsbd, c.atoMS, c.snr)
}

var c04EarlyRe = regexp.MustCompile(`too early by (-?\d+)ms`)

// before availabilityStartTime the message is worded "<n>ms too early"
var c04PreRe = regexp.MustCompile(`(?:too early by (-?\d+)ms|(-?\d+)ms too early)`)

// c04Times returns the segment name and the exact availability bounds (ms, absolute) of segment n:
// lo = instant from which 200 is allowed, hi = instant from which 200 is required.
func c04Times(a *vref.VAsset, r *vref.VRep, c c04Cfg, n int64) (name string, lo, hi int64) {
	startNr := int64(0)
	if c.snr >= 0 {
		startNr = int64(c.snr)
	}
	var endLoMS, endHiMS int64
	var segTime uint64
	if r.Kind == "audio" {
		// audio follows the reference (video) segment n; its own end is the next frame boundary
		v := a.Ref
		vs, ve := v.LiveStart(n), v.LiveEnd(n)
		segTime = vref.AudioBoundary(vs, v.TS, r.TS, r.FrameDur)
		aEnd := vref.AudioBoundary(ve, v.TS, r.TS, r.FrameDur)
		endLoMS = vref.TicksToMSCeil(ve, v.TS)
		endHiMS = vref.TicksToMSCeil(aEnd, r.TS)
		if endHiMS < endLoMS {
			endHiMS = endLoMS
		}
	} else {
		segTime = r.LiveStart(n)
		endLoMS = vref.TicksToMSCeil(r.LiveEnd(n), r.TS)
		endHiMS = endLoMS
		if r.LoopMismatch {
			// the last segment of a track shorter than the loop ends before the loop does: "segment end" may be read as the
			// end of its samples or as the instant the next segment starts
			if x := vref.TicksToMSCeil(r.LiveStart(n+1), r.TS); x > endHiMS {
				endHiMS = x
			}
		}
	}
	tmpl := r.MediaTmpl
	if c.byTime && r.Kind != "image" {
		tmpl = strings.ReplaceAll(tmpl, "$Number$", "$Time$")
		name = vref.ExpandURL(tmpl, r.ID, r.Bandwidth, 0, segTime)
	} else {
		tmpl = strings.ReplaceAll(tmpl, "$Time$", "$Number$")
		name = vref.ExpandURL(tmpl, r.ID, r.Bandwidth, startNr+n, 0)
	}
	ast := c.start * 1000
	if c.atoMS < 0 {
		return name, ast, ast
	}
	lo, hi = ast+endLoMS-c.atoMS, ast+endHiMS-c.atoMS
	if lo < ast {
		lo = ast
	}
	if hi < ast {
		hi = ast
	}
	return name, lo, hi
}

func c04Phase(code int) int {
	switch code {
	case 425:
		return 0
	case 200:
		return 1
	case 410:
		return 2
	}
	return -1
}

func TestVerifC04(t *testing.T) {
	rep := vh.NewReport("C04")
	defer rep.Write()
	quick := vh.Quick()
	W := int64(4)
	if !quick {
		W = 50
	}
	roots := []string{vBundledRoot}
	if g := vGenRoot(); g != "" {
		roots = append(roots, g)
		if x := vGenExtraRoot(); x != "" {
			roots = append(roots, x)
		}
	}
	type job struct {
		c c04Cfg
	}
	var jobs []job
	for _, root := range roots {
		for _, ap := range vAssetPaths(root) {
			if !vExtraWanted(root, ap, "x_text_short_last", "x_thumbs_1s_before_text") {
				continue
			}
			if vTimeOffsetAsset(ap) {
				continue // see DESIGN: assets whose first segment does not start at media time 0 are probed by C02 only
			}
			a, err := vAsset(root, ap)
			if err != nil || !a.LoopExact {
				continue
			}
			heavy := strings.HasPrefix(ap, "WAVE")
			segMS := a.LoopMS / int64(len(a.Ref.Segs))
			var ids []string
			for id := range a.Reps {
				ids = append(ids, id)
			}
			sort.Strings(ids)
			for _, id := range ids {
				r := a.Reps[id]
				if r.LoopMismatch && r.LoopOverride == 0 {
					continue // a track longer than the loop: not modelled
				}
				modes := []bool{false, true}
				if r.Kind == "image" {
					modes = []bool{false}
				}
				for _, byTime := range modes {
					starts := []int64{0, 900, 1_700_000_000}
					tsbds := []int64{0, 1, 60, 172800}
					atos := []int64{0, segMS / 4, segMS / 2, segMS + 1000, -1}
					snrs := []int{-1, 1, 7}
					k := 0
					for _, st := range starts {
						for _, tsbd := range tsbds {
							for _, ato := range atos {
								for _, snr := range snrs {
									k++
									if quick || heavy {
										// covering subset: each value of each dimension appears, most pairs appear
										if (k*7+len(id))%11 != 0 {
											continue
										}
									}
									jobs = append(jobs, job{c04Cfg{root: root, asset: ap, rep: id, byTime: byTime, start: st, tsbd: tsbd, atoMS: ato, snr: snr}})
									if !quick && !byTime && k%5 == 0 {
										jobs = append(jobs, job{c04Cfg{root: root, asset: ap, rep: id, tlnr: true, start: st, tsbd: tsbd, atoMS: ato, snr: snr}})
									}
								}
							}
						}
					}
				}
			}
		}
	}
	rep.Extra["configs_total"] = len(jobs)
	nsh := 0
	for ji, j := range jobs {
		if !vh.Mine(ji) {
			continue
		}
		if rep.OutOfBudget() {
			break
		}
		nsh++
		c04RunCfg(rep, j.c, W, quick)
	}
	// 404 clauses (once per shard 0)
	if sh, _ := vh.Shard(); sh == 0 {
		srv, err := vServer(vBundledRoot)
		if err == nil {
			for _, u := range []struct{ url, what string }{
				{"/livesim2/nope_asset/V300/1.m4s?nowMS=100000", "unknown-asset"},
				{"/livesim2/testpic_2s/V999/1.m4s?nowMS=100000", "unknown-rep"},
				{"/livesim2/snr_7/testpic_2s/V300/6.m4s?nowMS=100000", "video-before-startNumber"},
				{"/livesim2/snr_7/testpic_2s/A48/6.m4s?nowMS=100000", "audio-before-startNumber"},
				{"/livesim2/snr_7/testpic_2s/imsc1_txt_sv/6.m4s?nowMS=100000", "text-before-startNumber"},
				{"/livesim2/snr_7/testpic_2s/thumbs/6.jpg?nowMS=100000", "image-before-startNumber"},
				{"/livesim2/snr_7/segtimelinenr_1/testpic_2s/V300/0.m4s?nowMS=100000", "video-before-startNumber-tlnr"},
			} {
				rep.Hit("C04.404")
				rep.AddExecs(1)
				r := vGet(srv, u.url)
				if r.Code != 404 {
					sig := fmt.Sprintf("not-404:%s:status-%d", u.what, r.Code)
					if r.vCrashed() {
						site, val := vPanicSite(srv.livesimHandlerFunc, "GET", u.url, nil)
						sig = "not-404:" + u.what + ":panic:" + site
						rep.Violate("C04.404", sig, fmt.Sprintf("%s: handler crashed: %s", u.url, val), map[string]any{"url": u.url})
						continue
					}
					rep.Violate("C04.404", sig, fmt.Sprintf("%s: status %d %q, want 404", u.url, r.Code, vTrim(r.Body)), map[string]any{"url": u.url})
				}
			}
			// names that are not the name of any representation's segment, derived from real ones: extra characters before,
			// after or inside the name, an extra directory level, another extension
			for _, ap := range []string{"testpic_2s", "testpic_8s", "bbb_hevc_ac3_8s"} {
				a, err := vAsset(vBundledRoot, ap)
				if err != nil {
					continue
				}
				valid := map[string]bool{}
				var names []string
				nr := 60000 / (a.LoopMS / int64(len(a.Ref.Segs)))
				for _, r := range a.Reps {
					n := vref.ExpandURL(strings.ReplaceAll(r.MediaTmpl, "$Time$", "$Number$"), r.ID, r.Bandwidth, nr, 0)
					valid[n] = true
					names = append(names, n)
				}
				sort.Strings(names)
				for _, n := range names {
					ext := n[strings.LastIndex(n, "."):]
					for mi, m := range []string{"x" + n, "foo/" + n, n + "x", n + "/" + n, strings.Replace(n, ".", "x", 1), strings.TrimSuffix(n, ext), strings.TrimSuffix(n, ext) + ".mp4x"} {
						if valid[m] {
							continue
						}
						u := fmt.Sprintf("/livesim2/%s/%s?nowMS=100000", ap, m)
						rep.Hit("C04.404")
						rep.AddExecs(1)
						r := vGet(srv, u)
						if r.Code == 200 {
							rep.Violate("C04.404", fmt.Sprintf("not-404:unknown-rep:mutation-%d:status-%d", mi, r.Code), fmt.Sprintf("%s: status 200 (%d bytes) for a name that is no representation's segment (derived from %s)", u, len(r.Body), n), map[string]any{"url": u})
						} else if r.vCrashed() {
							site, val := vPanicSite(srv.livesimHandlerFunc, "GET", u, nil)
							rep.Violate("C04.404", "not-404:unknown-rep:panic:"+site, fmt.Sprintf("%s: handler crashed: %s", u, val), map[string]any{"url": u})
						}
					}
				}
			}
			// timeoffset_X shifts the server's clock by X seconds: the answer at t is the answer without it at t + X*1000 ms
			for _, x := range []string{"1.001", "0.001", "2.5", "-1.001", "0.3", "1.005", "4.35", "-0.007", "1.015", "2.675", "8.115"} {
				var ms int64
				neg := strings.HasPrefix(x, "-")
				ip, fp, _ := strings.Cut(strings.TrimPrefix(x, "-"), ".")
				a, _ := strconv.ParseInt(ip, 10, 64)
				b, _ := strconv.ParseInt((fp + "000")[:3], 10, 64)
				ms = a*1000 + b
				if neg {
					ms = -ms
				}
				for _, t := range []int64{11_999 - ms, 12_000 - ms, 12_001 - ms, 72_000 - ms, 82_000 - ms} {
					for _, name := range []string{"V300/5.m4s", "A48/5.m4s", "Manifest.mpd"} {
						u1 := fmt.Sprintf("/livesim2/timeoffset_%s/testpic_2s/%s?nowMS=%d", x, name, t)
						u2 := fmt.Sprintf("/livesim2/testpic_2s/%s?nowMS=%d", name, t+ms)
						r1, r2 := vGet(srv, u1), vGet(srv, u2)
						rep.Hit("C04.mono")
						rep.AddExecs(2)
						if r1.Code != r2.Code || (r1.Code == 200 && !bytes.Equal(r1.Body, r2.Body)) {
							rep.Violate("C04.avail", "timeoffset-not-a-clock-shift", fmt.Sprintf("%s answers %d %q, %s answers %d %q", u1, r1.Code, vTrim(r1.Body), u2, r2.Code, vTrim(r2.Body)), map[string]any{"url": u1, "plain": u2})
						}
					}
				}
			}
			// ... also around the start of a stream that begins near the request instant (start_100): the instants at which
			// the shifted and the unshifted clock pass the stream start and the first segments' availability instants
			for _, x := range []string{"1.001", "2.5", "-1.001", "8.115", "10", "-3"} {
				f, _ := strconv.ParseFloat(x, 64)
				ms := int64(math.Round(f * 1000))
				for _, pre := range []string{"start_100/", "start_100/ato_inf/", "start_100/segtimeline_1/"} {
					for _, d := range []int64{-ms - 1, -ms, -ms + 1, -1, 0, 1, 2000 - ms - 1, 2000 - ms, 2000 - ms + 1, 1999, 2000, 2001, 4000 - ms, 4000} {
						t := 100_000 + d
						for _, name := range []string{"V300/0.m4s", "A48/0.m4s", "V300/1.m4s", "Manifest.mpd"} {
							if strings.Contains(pre, "segtimeline") && !strings.HasSuffix(name, ".mpd") {
								continue
							}
							u1 := fmt.Sprintf("/livesim2/%stimeoffset_%s/testpic_2s/%s?nowMS=%d", pre, x, name, t)
							u2 := fmt.Sprintf("/livesim2/%stestpic_2s/%s?nowMS=%d", pre, name, t+ms)
							r1, r2 := vGet(srv, u1), vGet(srv, u2)
							rep.Hit("C04.mono")
							rep.AddExecs(2)
							if r1.Code != r2.Code || ((r1.Code == 200 || r1.Code == 425) && !bytes.Equal(r1.Body, r2.Body)) {
								rep.Violate("C04.avail", "timeoffset-not-a-clock-shift:near-stream-start", fmt.Sprintf("%s answers %d %q, %s answers %d %q", u1, r1.Code, vTrim(r1.Body), u2, r2.Code, vTrim(r2.Body)), map[string]any{"url": u1, "plain": u2})
							}
						}
					}
				}
			}
			// a number that differs from an available one by a multiple of 2^32 is another segment (centuries away)
			for _, rp := range []string{"V300/%d.m4s", "A48/%d.m4s", "imsc1_txt_sv/%d.m4s", "thumbs/%d.jpg", "timestpp-en/%d.m4s", "timewvtt-en/%d.m4s"} {
				for _, mode := range []string{"timesubsstpp_en/timesubswvtt_en/", "timesubsstpp_en/timesubswvtt_en/segtimelinenr_1/", "timesubsstpp_en/timesubswvtt_en/snr_7/"} {
					for _, k := range []int64{1 << 32, 1 << 33, 3 << 32, 1 << 40} {
						base := fmt.Sprintf("/livesim2/%stestpic_2s/"+rp+"?nowMS=100000", mode, 30)
						u := fmt.Sprintf("/livesim2/%stestpic_2s/"+rp+"?nowMS=100000", mode, 30+k)
						rep.Hit("C04.404")
						rep.AddExecs(2)
						if r0, r := vGet(srv, base), vGet(srv, u); r0.Code == 200 && r.Code == 200 {
							rep.Violate("C04.404", "number-alias-200:"+strings.SplitN(rp, "/", 2)[0], fmt.Sprintf("%s: status 200 (the segment with number 30 is available at this instant, number 30+%d is not)", u, k), map[string]any{"url": u})
						}
					}
				}
			}
			// every number below the start number (in particular startNumber - k x segments per loop)
			// x representation kind x addressing x instants from stream start to far beyond the window
			for _, as := range []struct {
				asset string
				reps  []string
			}{{"testpic_2s", []string{"V300/%d.m4s", "A48/%d.m4s", "imsc1_txt_sv/%d.m4s", "thumbs/%d.jpg"}}, {"testpic_8s", []string{"V300/%d.m4s", "A48/%d.m4s"}}} {
				for _, snr := range []int{1, 4, 7, 10} {
					for nr := 0; nr < snr; nr++ {
						for _, rp := range as.reps {
							for _, mode := range []string{"", "segtimelinenr_1/"} {
								if mode != "" && strings.HasPrefix(rp, "thumbs") {
									continue
								}
								for _, now := range []int64{0, 5000, 70000, 100000, 1_700_000_000_000} {
									u := fmt.Sprintf("/livesim2/snr_%d/%s%s/%s?nowMS=%d", snr, mode, as.asset, fmt.Sprintf(rp, nr), now)
									rep.Hit("C04.404")
									rep.AddExecs(1)
									r := vGet(srv, u)
									if r.Code != 404 {
										kind := strings.SplitN(rp, "/", 2)[0]
										rep.Violate("C04.404", fmt.Sprintf("not-404:below-startNumber:%s:status-%d", kind, r.Code), fmt.Sprintf("%s: status %d %q, want 404 (number %d is below startNumber %d)", u, r.Code, vTrim(r.Body), nr, snr), map[string]any{"url": u})
									}
								}
							}
						}
					}
				}
			}
		}
	}
}

func c04RunCfg(rep *vh.Report, c c04Cfg, W int64, quick bool) {
	srv, err := vServer(c.root)
	if err != nil {
		rep.Violate("C04.setup", "server", err.Error(), nil)
		return
	}
	if _, served := srv.assetMgr.assets[c.asset]; !served {
		return
	}
	a, _ := vAsset(c.root, c.asset)
	r := a.Reps[c.rep]
	if r.Kind == "audio" && r.FrameDur == 0 {
		return
	}
	N := int64(len(a.Ref.Segs))
	if r.Kind != "audio" {
		N = int64(len(r.Segs))
	}
	var ns []int64
	top := N + 1
	if !quick {
		top = 2*N + 1
	}
	for n := int64(0); n <= top; n++ {
		ns = append(ns, n)
	}
	far := int64(1_700_000_000_000) / (a.LoopMS / int64(len(a.Ref.Segs)))
	ns = append(ns, far)
	if !quick {
		ns = append(ns, far+1)
	}
	if c.start == 0 {
		// far future (2042): products of media time and a 90 kHz timescale pass 2^63 after 2037
		farN := int64(2_300_000_000_000) / (a.LoopMS / int64(len(a.Ref.Segs)))
		if lim := int64(1)<<32 - 1000; farN > lim {
			farN = lim // sequence numbers are 32 bits: beyond that there is no such segment (404, see the alias clause)
		}
		ns = append(ns, farN)
	}
	for _, n := range ns {
		name, lo, hi := c04Times(a, r, c, n)
		ast := c.start * 1000
		tg := hi + c.tsbd*1000 + 10000
		set := map[int64]bool{}
		add := func(t int64) {
			if t >= 0 {
				set[t] = true
			}
		}
		add(ast - 1000)
		add(ast - 1)
		add(ast)
		for d := -W; d <= W; d++ {
			add(lo + d)
			add(hi + d)
			add(tg + d)
		}
		for _, d := range []int64{-100000, -10000, -1000, -100, -20, 20, 100, 1000} {
			add(lo + d)
			add(tg + d)
		}
		add(hi + c.tsbd*1000) // last instant of the guaranteed window
		add(hi + c.tsbd*500)
		add(tg + 100000)
		var ts []int64
		for t := range set {
			ts = append(ts, t)
		}
		sort.Slice(ts, func(i, j int) bool { return ts[i] < ts[j] })
		phase := 0
		first := true
		for _, t := range ts {
			url := fmt.Sprintf("%s/%s/%s?nowMS=%d", c.prefix(), c.asset, name, t)
			resp := vGet(srv, url)
			rep.AddStates(1)
			rep.AddExecs(1)
			if !first {
				rep.AddTrans(1)
			}
			first = false
			viol := func(clause, sig, msg string) {
				rep.Violate(clause, sig+":"+r.Kind+vIf(c.byTime, ":time", ":nr"), fmt.Sprintf("%s n=%d t=%d (AST=%d avail=[%d,%d] gone>%d): %s", c, n, t, ast, lo, hi, tg, msg),
					map[string]any{"url": url, "config": c.String(), "n": n})
			}
			// the other safe method: HEAD is the same decision without the body
			if hr := vDo(srv, "HEAD", url, nil); hr.Code != resp.Code {
				rep.AddExecs(1)
				viol("C04.mono", fmt.Sprintf("head-%d-get-%d", hr.Code, resp.Code), fmt.Sprintf("HEAD answers %d where GET answers %d", hr.Code, resp.Code))
			}
			ph := c04Phase(resp.Code)
			if ph < 0 {
				if resp.vCrashed() {
					site, val := vPanicSite(srv.livesimHandlerFunc, "GET", url, nil)
					viol("C04.status", "panic:"+site, "handler crashed: "+val)
				} else {
					viol("C04.status", fmt.Sprintf("status-%d", resp.Code), fmt.Sprintf("status %d %q", resp.Code, vTrim(resp.Body)))
				}
				continue
			}
			rep.Hit("C04.mono")
			if ph < phase {
				viol("C04.mono", fmt.Sprintf("back-%d-to-%d", phase, ph), fmt.Sprintf("status %d after a later phase", resp.Code))
			}
			if ph > phase {
				phase = ph
			}
			switch {
			case t < ast:
				rep.Hit("C04.pre")
				if resp.Code != 425 {
					viol("C04.pre", fmt.Sprintf("before-AST-%d", resp.Code), fmt.Sprintf("status %d before availabilityStartTime", resp.Code))
				} else if m := c04PreRe.FindSubmatch(resp.Body); m != nil {
					// before the stream exists the body may count down to the stream start or to the segment itself
					rep.Hit("C04.body")
					got, _ := strconv.ParseInt(string(m[1])+string(m[2]), 10, 64)
					if got < ast-t-1 || got > hi-t {
						viol("C04.body", "remaining-ms:before-AST", fmt.Sprintf("425 body says %d ms; the stream starts in %d ms, the segment is available in %d ms", got, ast-t, hi-t))
					}
				}
			case t < lo:
				rep.Hit("C04.early")
				if resp.Code != 425 {
					viol("C04.early", fmt.Sprintf("early-%d", resp.Code), fmt.Sprintf("status %d, %d ms before the segment is available", resp.Code, lo-t))
				} else if m := c04EarlyRe.FindSubmatch(resp.Body); m != nil {
					rep.Hit("C04.body")
					got, _ := strconv.ParseInt(string(m[1]), 10, 64)
					// exact remaining time lies in (lo-1-t, hi-t]; floor and ceil are accepted
					if got < lo-1-t || got > hi-t {
						viol("C04.body", "remaining-ms", fmt.Sprintf("425 body says %d ms, remaining is %d..%d ms", got, lo-t, hi-t))
					}
				} else {
					viol("C04.body", "no-remaining-ms", fmt.Sprintf("425 body %q does not state the remaining ms", vTrim(resp.Body)))
				}
			case t >= hi && t <= hi+c.tsbd*1000:
				rep.Hit("C04.avail")
				if resp.Code != 200 {
					viol("C04.avail", fmt.Sprintf("unavailable-%d", resp.Code), fmt.Sprintf("status %d %q inside [availability, availability+tsbd]", resp.Code, vTrim(resp.Body)))
				}
			}
		}
		rep.Outcome(fmt.Sprintf("%s|%v|%d", c.rep, c.byTime, phase))
	}
	rep.Sample(map[string]any{"config": c.String(), "segment_indices": ns, "window_ms": W})
}

func vIf(b bool, x, y string) string {
	if b {
		return x
	}
	return y
}
