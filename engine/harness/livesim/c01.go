package app

// C01 — looped output is one gap-free, wall-clock-anchored media timeline.
// E3: (asset x representation x addressing x startNumber x start) x every segment index n over
// > 3 loops after start and > 2 loops far from the epoch; reference = independent VoD parse.

import (
	"bytes"
	"fmt"
	"regexp"
	"sort"
	"strconv"
	"strings"
	"testing"

	"github.com/Dash-Industry-Forum/livesim2/internal/vshim/vh"
	"github.com/Dash-Industry-Forum/livesim2/internal/vshim/vref"
)

var c01TimeRe = regexp.MustCompile(`(\d\d+):(\d\d):(\d\d)(\.\d\d\d)?`)

func c01Stamps(b []byte) []int64 {
	var out []int64
	for _, m := range c01TimeRe.FindAllSubmatch(b, -1) {
		h, _ := strconv.ParseInt(string(m[1]), 10, 64)
		mi, _ := strconv.ParseInt(string(m[2]), 10, 64)
		s, _ := strconv.ParseInt(string(m[3]), 10, 64)
		var ms int64
		if len(m[4]) > 0 {
			ms, _ = strconv.ParseInt(string(m[4][1:]), 10, 64)
		}
		out = append(out, h*3600000+mi*60000+s*1000+ms)
	}
	return out
}

func c01Tail(b []byte) string {
	if len(b) > 24 {
		b = b[len(b)-24:]
	}
	return string(b)
}

type c01Cfg struct {
	root, asset, rep string
	mode             string // number | tltime | tlnr
	snr              int    // -1 = unset
	start            int64
}

func (c c01Cfg) prefix() string {
	var p []string
	switch c.mode {
	case "tltime":
		p = append(p, "segtimeline_1")
	case "tlnr":
		p = append(p, "segtimelinenr_1")
	}
	if c.snr >= 0 {
		p = append(p, fmt.Sprintf("snr_%d", c.snr))
	}
	if c.start > 0 {
		p = append(p, fmt.Sprintf("start_%d", c.start))
	}
	return vCfgPrefix(p...)
}

func (c c01Cfg) String() string {
	return fmt.Sprintf("%s/%s mode=%s snr=%d start=%d", c.asset, c.rep, c.mode, c.snr, c.start)
}

// c01SegRef is the reference for segment index n of a (non-audio) representation.
type c01SegRef struct {
	n      int64
	vodIdx int
	start  uint64 // media time
	dur    uint64
	nr     int64
}

func c01Ref(r *vref.VRep, n int64, startNr int64) c01SegRef {
	N := int64(len(r.Segs))
	w := n / N
	i := int(n % N)
	return c01SegRef{n: n, vodIdx: i, start: uint64(w)*r.Loop() + r.Segs[i].Start, dur: r.Segs[i].Dur(), nr: startNr + n}
}

// c01URL returns the segment URL (by number or by time) and the request instant (availability + 1 ms).
func c01URL(c c01Cfg, r *vref.VRep, ref c01SegRef, byTime bool) (string, int64) {
	var name string
	tmpl := r.MediaTmpl
	if byTime {
		tmpl = strings.ReplaceAll(tmpl, "$Number$", "$Time$")
		name = vref.ExpandURL(tmpl, r.ID, r.Bandwidth, 0, ref.start)
	} else {
		tmpl = strings.ReplaceAll(tmpl, "$Time$", "$Number$")
		name = vref.ExpandURL(tmpl, r.ID, r.Bandwidth, ref.nr, 0)
	}
	endMS := vCeilDiv(int64(ref.start+ref.dur)*1000, int64(r.TS))
	now := c.start*1000 + endMS + 1
	return fmt.Sprintf("%s/%s/%s?nowMS=%d", c.prefix(), c.asset, name, now), now
}

func c01Ranges(N int64, avgDurTicks, ts uint64, quick bool) [][2]int64 {
	// right after start: [0, 3N+2]; far from epoch: [K, K+2N+2] with K*avgDur ~ 1.7e9 s
	K := int64(1_700_000_000) * int64(ts) / int64(avgDurTicks)
	r := [][2]int64{{0, 3*N + 2}, {K, K + 2*N + 2}}
	// the first n whose tfdt needs more than 32 bits (only if that happens within the stream)
	if x := (int64(1) << 32) / int64(avgDurTicks); x > 3*N+2 {
		r = append(r, [2]int64{x - N - 1, x + N + 1})
	}
	return r
}

func TestVerifC01(t *testing.T) {
	rep := vh.NewReport("C01")
	defer rep.Write()
	quick := vh.Quick()
	roots := []string{vBundledRoot}
	if g := vGenRoot(); g != "" {
		roots = append(roots, g)
		if x := vGenExtraRoot(); x != "" {
			roots = append(roots, x) // trex/tfhd mismatch on video, two video grids
		}
	}
	var cfgs []c01Cfg
	for _, root := range roots {
		for _, ap := range vAssetPaths(root) {
			if !vExtraWanted(root, ap, "x_video_trex_vs_tfhd", "x_two_video_grids", "x_thumbs_1s_before_text", "x_text_short_last", "x_text_both_sizes", "x_video_frags_trex_only", "x_video_frags") {
				continue
			}
			if vTimeOffsetAsset(ap) {
				continue // see DESIGN: assets whose first segment does not start at media time 0 are probed by C02 only
			}
			a, err := vAsset(root, ap)
			if err != nil {
				rep.Note("asset %s not loadable by the reference: %v", ap, err)
				continue
			}
			if !a.LoopExact {
				continue // such assets must not be served (C15)
			}
			var ids []string
			for id := range a.Reps {
				ids = append(ids, id)
			}
			sort.Strings(ids)
			for _, id := range ids {
				r := a.Reps[id]
				if r.LoopMismatch && r.LoopOverride == 0 {
					continue // a track longer than the loop (or a loop that is no whole number of its ticks): not modelled
				}
				if r.Kind == "audio" {
					continue
				}
				modes := []string{"number", "tltime", "tlnr"}
				for _, mode := range modes {
					for _, snr := range []int{-1, 1, 7} {
						for _, start := range []int64{0, 900, 1_700_000_000} {
							if quick && ((snr == 1 && start == 900) || (snr == 7 && start == 1_700_000_000)) {
								continue
							}
							cfgs = append(cfgs, c01Cfg{root: root, asset: ap, rep: id, mode: mode, snr: snr, start: start})
						}
					}
				}
			}
		}
	}
	rep.Extra["configs"] = len(cfgs)
	for ci, c := range cfgs {
		if !vh.Mine(ci) {
			continue
		}
		if rep.OutOfBudget() {
			break
		}
		c01RunCfg(rep, c, quick)
	}
}

func c01RunCfg(rep *vh.Report, c c01Cfg, quick bool) {
	srv, err := vServer(c.root)
	if err != nil {
		rep.Violate("C01.setup", "server:"+c.root, err.Error(), nil)
		return
	}
	a, _ := vAsset(c.root, c.asset)
	if _, served := srv.assetMgr.assets[c.asset]; !served {
		// the reference reads this asset as a valid VoD asset with an exact loop: nothing of its
		// timeline is served at all
		rep.Violate("C01.a", "asset-not-served", fmt.Sprintf("asset %s is a valid VoD asset for the reference model but the server left it out at load", c.asset), map[string]any{"asset": c.asset})
		return
	}
	r := a.Reps[c.rep]
	N := int64(len(r.Segs))
	startNr := int64(0)
	if c.snr >= 0 {
		startNr = int64(c.snr)
	}
	avg := r.LoopTicks() / uint64(N)
	isImage := r.Kind == "image"
	isStpp := strings.HasPrefix(r.Codecs, "stpp")
	viol := func(clause, sig, msg string, url string) {
		rep.Violate(clause, sig+":"+r.Kind, fmt.Sprintf("%s: %s", c, msg), map[string]any{"url": url, "config": c.String()})
	}
	for _, rg := range c01Ranges(N, avg, r.TS, quick) {
		var prevEnd uint64
		havePrev := false
		for n := rg[0]; n <= rg[1]; n++ {
			ref := c01Ref(r, n, startNr)
			byTime := c.mode == "tltime" && !isImage
			url, _ := c01URL(c, r, ref, byTime)
			resp := vGet(srv, url)
			rep.AddStates(1)
			rep.AddExecs(1)
			if havePrev {
				rep.AddTrans(1)
			}
			if resp.Code != 200 {
				if resp.vCrashed() {
					viol("C01.status", "panic", "handler crashed (empty 500)", url)
				} else {
					viol("C01.status", fmt.Sprintf("status-%d", resp.Code), fmt.Sprintf("n=%d: status %d %q, want 200 at availability+1ms", n, resp.Code, vTrim(resp.Body)), url)
				}
				havePrev = false
				continue
			}
			vod := r.Segs[ref.vodIdx]
			if isImage {
				rep.Hit("C01.c")
				if !bytes.Equal(resp.Body, vod.Raw) {
					viol("C01.c", "thumbnail-bytes", fmt.Sprintf("n=%d: thumbnail differs from VoD file %s", n, vod.File), url)
				}
				continue
			}
			sg, err := vref.ParseSegment(resp.Body, r.Init.Trex)
			if err != nil {
				viol("C01.g", "unparsable", fmt.Sprintf("n=%d: served segment does not parse: %v", n, err), url)
				havePrev = false
				continue
			}
			// (a) sequence numbers
			rep.Hit("C01.a")
			for fi, f := range sg.Frags {
				if int64(f.Seq) != ref.nr {
					viol("C01.a", "seqnr", fmt.Sprintf("n=%d: fragment %d mfhd.sequence_number=%d, want startNumber+n=%d", n, fi, f.Seq, ref.nr), url)
					break
				}
			}
			// (b) decode time
			rep.Hit("C01.b")
			if sg.Start() != ref.start {
				viol("C01.b", "tfdt", fmt.Sprintf("n=%d: tfdt=%d, want floor(n/N)*loop + vodStart = %d", n, sg.Start(), ref.start), url)
			}
			// every further fragment of the segment keeps its distance to the segment start (the decode times of
			// its samples follow from its own tfdt, not from the first fragment's)
			if vsg, err := vref.ParseSegment(vod.Raw, r.Init.Trex); err == nil && (len(vsg.Frags) > 1 || len(sg.Frags) > 1) {
				if len(vsg.Frags) != len(sg.Frags) {
					viol("C01.c", "fragment-count", fmt.Sprintf("n=%d: %d fragments, VoD segment %s has %d", n, len(sg.Frags), vod.File, len(vsg.Frags)), url)
				} else {
					for fi := range sg.Frags {
						if g, w := sg.Frags[fi].Tfdt-sg.Start(), vsg.Frags[fi].Tfdt-vsg.Start(); g != w {
							viol("C01.b", "fragment-tfdt", fmt.Sprintf("n=%d: fragment %d starts %d ticks after the segment start, in VoD segment %s it starts %d ticks after it", n, fi, g, vod.File, w), url)
							break
						}
					}
				}
			}
			// (c) samples unchanged
			rep.Hit("C01.c")
			got := sg.Samples()
			if len(got) != len(vod.Samples) {
				viol("C01.c", "sample-count", fmt.Sprintf("n=%d: %d samples, VoD segment %s has %d", n, len(got), vod.File, len(vod.Samples)), url)
			} else {
				for k := range got {
					g, v := got[k], vod.Samples[k]
					if g.Dur != v.Dur || g.Flags != v.Flags || g.CTO != v.CTO {
						viol("C01.c", "sample-meta", fmt.Sprintf("n=%d sample %d: (dur,flags,cto)=(%d,%x,%d) VoD (%d,%x,%d)", n, k, g.Dur, g.Flags, g.CTO, v.Dur, v.Flags, v.CTO), url)
						break
					}
					if !isStpp && (g.Size != v.Size || g.Hash != v.Hash) {
						viol("C01.c", "sample-payload", fmt.Sprintf("n=%d sample %d: payload differs from VoD segment %s", n, k, vod.File), url)
						break
					}
				}
			}
			// (d) contiguity with the previous segment
			if havePrev {
				rep.Hit("C01.d")
				// a track shorter than the loop has a hole at every wrap: its start there is judged by C01.b only
				if sg.Start() != prevEnd && !(r.LoopMismatch && ref.vodIdx == 0) {
					viol("C01.d", "gap", fmt.Sprintf("n=%d starts at %d but n-1 ended at %d", n, sg.Start(), prevEnd), url)
				}
			}
			prevEnd = sg.Start() + sg.Dur()
			havePrev = true
			// (e) $Time$ and $Number$ addressing give the same bytes
			if c.mode == "tltime" {
				rep.Hit("C01.e")
				c2 := c
				c2.mode = "tlnr"
				url2, _ := c01URL(c2, r, ref, false)
				r2 := vGet(srv, url2)
				rep.AddExecs(1)
				if r2.Code != 200 || !bytes.Equal(r2.Body, resp.Body) {
					viol("C01.e", "time-vs-number", fmt.Sprintf("n=%d: $Time$ response (200, %d bytes) differs from $Number$ response (%d, %d bytes)", n, len(resp.Body), r2.Code, len(r2.Body)), url)
				}
			}
			// (f) TTML timestamps move with the decode time
			if isStpp && len(got) == 1 && len(vod.Samples) == 1 {
				rep.Hit("C01.f")
				shiftTicks := int64(sg.Start()) - int64(vod.Start)
				vd, gd := vod.Samples[0].Data, got[0].Data
				if len(vod.Subs) > 0 && int(vod.Subs[0]) <= len(vd) { // TTML document is the first subsample, images follow
					vd = vd[:vod.Subs[0]]
				}
				if ss := sg.Frags[0].SubsSizes; len(ss) > 0 && int(ss[0]) <= len(gd) {
					gd = gd[:ss[0]]
				}
				vs, gs := c01Stamps(vd), c01Stamps(gd)
				// the document is the VoD document: nothing but the timestamps differs, nothing is cut off or appended
				if vt, gt := c01TimeRe.ReplaceAll(vd, []byte("T")), c01TimeRe.ReplaceAll(gd, []byte("T")); len(vs) == len(gs) && !bytes.Equal(vt, gt) {
					viol("C01.f", "ttml-document", fmt.Sprintf("n=%d: with the timestamps masked, the TTML document (%d bytes) differs from that of VoD segment %s (%d bytes); it ends with %q", n, len(gt), vod.File, len(vt), c01Tail(gt)), url)
				}
				if len(vs) != len(gs) {
					viol("C01.f", "stamp-count", fmt.Sprintf("n=%d: %d timestamps, VoD has %d", n, len(gs), len(vs)), url)
				} else {
					for k := range vs {
						// exact shift in ms may be fractional: accept floor and ceil
						lo := shiftTicks * 1000 / int64(r.TS)
						hi := vCeilDiv(shiftTicks*1000, int64(r.TS))
						d := gs[k] - vs[k]
						if d < lo || d > hi {
							viol("C01.f", "stamp-shift", fmt.Sprintf("n=%d: TTML timestamp %d moved by %d ms, decode time moved by %d/%d s (= %d..%d ms)", n, k, d, shiftTicks, r.TS, lo, hi), url)
							break
						}
					}
				}
				if f := sg.Frags[0]; len(f.SubsSizes) > 0 {
					var sum uint32
					for _, x := range f.SubsSizes {
						sum += x
					}
					if sum != got[0].Size {
						viol("C01.f", "subs-size", fmt.Sprintf("n=%d: subsample sizes sum to %d, sample size %d", n, sum, got[0].Size), url)
					}
				}
			}
			// (g) structural consistency
			rep.Hit("C01.g")
			for fi, f := range sg.Frags {
				if f.HasDataOff && f.MoofStart+int(f.DataOffset) != f.MdatPayload {
					viol("C01.g", "data-offset", fmt.Sprintf("n=%d fragment %d: trun.data_offset points at %d, first payload byte is at %d", n, fi, f.MoofStart+int(f.DataOffset), f.MdatPayload), url)
					break
				}
			}
			if sg.Sidx != nil && sg.Sidx.EPT != sg.Start() {
				// not part of the statement of C01: recorded as an observation only
				rep.Note("observation (not a C01 clause): %s n=%d sidx earliest_presentation_time %d != tfdt %d (32-bit sidx)", c.asset, n, sg.Sidx.EPT, sg.Start())
			}
		}
	}
	rep.Sample(map[string]any{"config": c.String(), "segments_per_loop": N, "ranges": c01Ranges(N, avg, r.TS, quick)})
	rep.Outcome(fmt.Sprintf("%s/%s/%s", c.asset, c.rep, c.mode))
}

func vTrim(b []byte) string {
	s := strings.TrimSpace(string(b))
	if len(s) > 120 {
		s = s[:120]
	}
	return s
}
