// Package vatomic shadows "sync/atomic" types used by livesim2.
package vatomic

import (
	"sync/atomic"

	"github.com/Dash-Industry-Forum/livesim2/internal/vshim/vrt"
)

type (
	Value = atomic.Value
)

type Uint64 struct {
	real atomic.Uint64
	hb   vrt.Sync
}

func (u *Uint64) pt(k string) *vrt.Sched {
	s := vrt.Cur()
	if s != nil {
		s.Point(k)
		s.Acquire(&u.hb)
		s.Release(&u.hb)
	}
	return s
}
func (u *Uint64) Load() uint64         { u.pt("atomic.Load"); return u.real.Load() }
func (u *Uint64) Store(v uint64)       { u.pt("atomic.Store"); u.real.Store(v) }
func (u *Uint64) Add(d uint64) uint64  { u.pt("atomic.Add"); return u.real.Add(d) }
func (u *Uint64) Swap(v uint64) uint64 { u.pt("atomic.Swap"); return u.real.Swap(v) }
func (u *Uint64) CompareAndSwap(o, n uint64) bool {
	u.pt("atomic.CAS")
	return u.real.CompareAndSwap(o, n)
}

type Int64 struct {
	real atomic.Int64
	hb   vrt.Sync
}

func (u *Int64) pt(k string) {
	if s := vrt.Cur(); s != nil {
		s.Point(k)
		s.Acquire(&u.hb)
		s.Release(&u.hb)
	}
}
func (u *Int64) Load() int64       { u.pt("atomic.Load"); return u.real.Load() }
func (u *Int64) Store(v int64)     { u.pt("atomic.Store"); u.real.Store(v) }
func (u *Int64) Add(d int64) int64 { u.pt("atomic.Add"); return u.real.Add(d) }
func (u *Int64) CompareAndSwap(o, n int64) bool {
	u.pt("atomic.CAS")
	return u.real.CompareAndSwap(o, n)
}

type Int32 struct {
	real atomic.Int32
	hb   vrt.Sync
}

func (u *Int32) pt(k string) {
	if s := vrt.Cur(); s != nil {
		s.Point(k)
		s.Acquire(&u.hb)
		s.Release(&u.hb)
	}
}
func (u *Int32) Load() int32       { u.pt("atomic.Load"); return u.real.Load() }
func (u *Int32) Store(v int32)     { u.pt("atomic.Store"); u.real.Store(v) }
func (u *Int32) Add(d int32) int32 { u.pt("atomic.Add"); return u.real.Add(d) }

type Bool struct {
	real atomic.Bool
	hb   vrt.Sync
}

func (u *Bool) pt(k string) {
	if s := vrt.Cur(); s != nil {
		s.Point(k)
		s.Acquire(&u.hb)
		s.Release(&u.hb)
	}
}
func (u *Bool) Load() bool   { u.pt("atomic.Load"); return u.real.Load() }
func (u *Bool) Store(v bool) { u.pt("atomic.Store"); u.real.Store(v) }

// ---- the rest of sync/atomic, so that any tree that compiles against sync/atomic compiles against this shim.
// Every operation is a scheduling point and a synchronisation (acquire+release on the variable).

func pt(hb *vrt.Sync, k string) {
	if s := vrt.Cur(); s != nil {
		s.Point(k)
		s.Acquire(hb)
		s.Release(hb)
	}
}

type Uint32 struct {
	real atomic.Uint32
	hb   vrt.Sync
}

func (u *Uint32) Load() uint32         { pt(&u.hb, "atomic.Load"); return u.real.Load() }
func (u *Uint32) Store(v uint32)       { pt(&u.hb, "atomic.Store"); u.real.Store(v) }
func (u *Uint32) Add(d uint32) uint32  { pt(&u.hb, "atomic.Add"); return u.real.Add(d) }
func (u *Uint32) Swap(v uint32) uint32 { pt(&u.hb, "atomic.Swap"); return u.real.Swap(v) }
func (u *Uint32) CompareAndSwap(o, n uint32) bool {
	pt(&u.hb, "atomic.CAS")
	return u.real.CompareAndSwap(o, n)
}

type Uintptr struct {
	real atomic.Uintptr
	hb   vrt.Sync
}

func (u *Uintptr) Load() uintptr          { pt(&u.hb, "atomic.Load"); return u.real.Load() }
func (u *Uintptr) Store(v uintptr)        { pt(&u.hb, "atomic.Store"); u.real.Store(v) }
func (u *Uintptr) Add(d uintptr) uintptr  { pt(&u.hb, "atomic.Add"); return u.real.Add(d) }
func (u *Uintptr) Swap(v uintptr) uintptr { pt(&u.hb, "atomic.Swap"); return u.real.Swap(v) }
func (u *Uintptr) CompareAndSwap(o, n uintptr) bool {
	pt(&u.hb, "atomic.CAS")
	return u.real.CompareAndSwap(o, n)
}

func (u *Int64) Swap(v int64) int64 { u.pt("atomic.Swap"); return u.real.Swap(v) }
func (u *Int32) Swap(v int32) int32 { u.pt("atomic.Swap"); return u.real.Swap(v) }
func (u *Int32) CompareAndSwap(o, n int32) bool {
	u.pt("atomic.CAS")
	return u.real.CompareAndSwap(o, n)
}
func (u *Bool) Swap(v bool) bool { u.pt("atomic.Swap"); return u.real.Swap(v) }
func (u *Bool) CompareAndSwap(o, n bool) bool {
	u.pt("atomic.CAS")
	return u.real.CompareAndSwap(o, n)
}

// Pointer shadows atomic.Pointer[T].
type Pointer[T any] struct {
	real atomic.Pointer[T]
	hb   vrt.Sync
}

func (p *Pointer[T]) Load() *T     { pt(&p.hb, "atomic.Load"); return p.real.Load() }
func (p *Pointer[T]) Store(v *T)   { pt(&p.hb, "atomic.Store"); p.real.Store(v) }
func (p *Pointer[T]) Swap(v *T) *T { pt(&p.hb, "atomic.Swap"); return p.real.Swap(v) }
func (p *Pointer[T]) CompareAndSwap(o, n *T) bool {
	pt(&p.hb, "atomic.CAS")
	return p.real.CompareAndSwap(o, n)
}

// function forms: scheduling points without a per-variable clock (the address is not ours to extend); they
// synchronise through one global clock, which can only hide races, never invent them
var fnHB vrt.Sync

func AddInt32(a *int32, d int32) int32     { pt(&fnHB, "atomic.Add"); return atomic.AddInt32(a, d) }
func AddInt64(a *int64, d int64) int64     { pt(&fnHB, "atomic.Add"); return atomic.AddInt64(a, d) }
func AddUint32(a *uint32, d uint32) uint32 { pt(&fnHB, "atomic.Add"); return atomic.AddUint32(a, d) }
func AddUint64(a *uint64, d uint64) uint64 { pt(&fnHB, "atomic.Add"); return atomic.AddUint64(a, d) }
func AddUintptr(a *uintptr, d uintptr) uintptr {
	pt(&fnHB, "atomic.Add")
	return atomic.AddUintptr(a, d)
}
func LoadInt32(a *int32) int32              { pt(&fnHB, "atomic.Load"); return atomic.LoadInt32(a) }
func LoadInt64(a *int64) int64              { pt(&fnHB, "atomic.Load"); return atomic.LoadInt64(a) }
func LoadUint32(a *uint32) uint32           { pt(&fnHB, "atomic.Load"); return atomic.LoadUint32(a) }
func LoadUint64(a *uint64) uint64           { pt(&fnHB, "atomic.Load"); return atomic.LoadUint64(a) }
func LoadUintptr(a *uintptr) uintptr        { pt(&fnHB, "atomic.Load"); return atomic.LoadUintptr(a) }
func StoreInt32(a *int32, v int32)          { pt(&fnHB, "atomic.Store"); atomic.StoreInt32(a, v) }
func StoreInt64(a *int64, v int64)          { pt(&fnHB, "atomic.Store"); atomic.StoreInt64(a, v) }
func StoreUint32(a *uint32, v uint32)       { pt(&fnHB, "atomic.Store"); atomic.StoreUint32(a, v) }
func StoreUint64(a *uint64, v uint64)       { pt(&fnHB, "atomic.Store"); atomic.StoreUint64(a, v) }
func StoreUintptr(a *uintptr, v uintptr)    { pt(&fnHB, "atomic.Store"); atomic.StoreUintptr(a, v) }
func SwapInt32(a *int32, v int32) int32     { pt(&fnHB, "atomic.Swap"); return atomic.SwapInt32(a, v) }
func SwapInt64(a *int64, v int64) int64     { pt(&fnHB, "atomic.Swap"); return atomic.SwapInt64(a, v) }
func SwapUint32(a *uint32, v uint32) uint32 { pt(&fnHB, "atomic.Swap"); return atomic.SwapUint32(a, v) }
func SwapUint64(a *uint64, v uint64) uint64 { pt(&fnHB, "atomic.Swap"); return atomic.SwapUint64(a, v) }
func CompareAndSwapInt32(a *int32, o, n int32) bool {
	pt(&fnHB, "atomic.CAS")
	return atomic.CompareAndSwapInt32(a, o, n)
}
func CompareAndSwapInt64(a *int64, o, n int64) bool {
	pt(&fnHB, "atomic.CAS")
	return atomic.CompareAndSwapInt64(a, o, n)
}
func CompareAndSwapUint32(a *uint32, o, n uint32) bool {
	pt(&fnHB, "atomic.CAS")
	return atomic.CompareAndSwapUint32(a, o, n)
}
func CompareAndSwapUint64(a *uint64, o, n uint64) bool {
	pt(&fnHB, "atomic.CAS")
	return atomic.CompareAndSwapUint64(a, o, n)
}
