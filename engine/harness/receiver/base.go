package app

// shared helpers of the CMAF-ingest receiver harnesses

import (
	"bytes"
	"context"
	"fmt"
	"io"
	"net/http"
	"net/http/httptest"
	"os"
	"path/filepath"
	"runtime"
	"strings"
	"time"

	"github.com/Dash-Industry-Forum/livesim2/internal/vshim/vrt"
	"github.com/Dash-Industry-Forum/livesim2/pkg/logging"
	"github.com/go-chi/chi/v5"
)

// the local time zone is environment: neither UTC nor whole hours away from it (see the livesim2 harness)
func init() { time.Local = time.FixedZone("VERIF", -(3*3600 + 30*60)) }

type rTrack struct {
	name, ext string
	init      []byte
	segs      [][]byte
}

// rLoadTracks reads the bundled test tracks into memory (before the harness leaves the package directory).
func rLoadTracks() (map[string]*rTrack, error) {
	out := map[string]*rTrack{}
	base := "testdata/zero_3.84s"
	ents, err := os.ReadDir(base)
	if err != nil {
		return nil, err
	}
	for _, e := range ents {
		if !e.IsDir() {
			continue
		}
		files, _ := os.ReadDir(filepath.Join(base, e.Name()))
		tr := &rTrack{name: e.Name()}
		for _, f := range files {
			if strings.HasPrefix(f.Name(), "init_org") {
				tr.ext = filepath.Ext(f.Name())
				tr.init, err = os.ReadFile(filepath.Join(base, e.Name(), f.Name()))
				if err != nil {
					return nil, err
				}
			}
		}
		for i := 0; ; i++ {
			b, err := os.ReadFile(filepath.Join(base, e.Name(), fmt.Sprintf("%d%s", i, tr.ext)))
			if err != nil {
				break
			}
			tr.segs = append(tr.segs, b)
		}
		out[e.Name()] = tr
	}
	return out, nil
}

// rScratch moves the process into a scratch directory (the receiver creates directories relative
// to the working directory) and returns a storage root.
func rScratch(tag string) (string, error) {
	root := os.Getenv("VERIF_SCRATCH")
	if root == "" {
		root = os.TempDir()
	}
	if st, err := os.Stat("/dev/shm"); err == nil && st.IsDir() {
		root = "/dev/shm" // memory-backed: the explorers create and remove a storage tree per execution
	}
	d, err := os.MkdirTemp(root, "recv-"+tag+"-")
	if err != nil {
		return "", err
	}
	if err := os.Chdir(d); err != nil {
		return "", err
	}
	_ = logging.InitSlog("error", "discard")
	return d, nil
}

type rResp struct {
	Code int
	Body []byte
}

func (r rResp) crashed() bool { return r.Code == 500 && len(r.Body) == 0 }

func rNewReceiver(ctx context.Context, storage string, cfg *Config, tsbd uint64) (*Receiver, http.Handler, error) {
	opts := Options{prefix: "/upload", timeShiftBufferDepthS: tsbd, storage: storage}
	if cfg == nil {
		cfg = GetEmptyConfig()
	}
	r, err := NewReceiver(ctx, &opts, cfg)
	if err != nil {
		return nil, nil, err
	}
	return r, setupRouterQuiet(r), nil
}

// setupRouterQuiet is setupRouter without the request logger (same handlers and Recoverer).
func setupRouterQuiet(r *Receiver) http.Handler {
	router := chi.NewRouter()
	router.Use(quietRecoverer)
	router.Use(addCorsHeaders)
	router.Put(fmt.Sprintf("%s/*", r.prefix), r.SegmentHandlerFunc)
	router.Post(fmt.Sprintf("%s/*", r.prefix), r.SegmentHandlerFunc)
	router.Delete(fmt.Sprintf("%s/*", r.prefix), r.DeleteHandlerFunc)
	return router
}

// quietRecoverer is chi's Recoverer without the stack print: a recovered panic becomes an empty 500;
// the runtime's own unwinding sentinel is passed on.
func quietRecoverer(next http.Handler) http.Handler {
	return http.HandlerFunc(func(w http.ResponseWriter, r *http.Request) {
		defer func() {
			if p := recover(); p != nil {
				if vrt.IsAbort(p) {
					panic(p)
				}
				w.WriteHeader(http.StatusInternalServerError)
			}
		}()
		next.ServeHTTP(w, r)
	})
}

func rPut(h http.Handler, path string, body []byte, withLen bool, user, pswd string) rResp {
	req := httptest.NewRequest("PUT", path, bytes.NewReader(body))
	if !withLen {
		req.ContentLength = -1
		req.Header.Del("Content-Length")
	} else {
		req.Header.Set("Content-Length", fmt.Sprint(len(body)))
	}
	if user != "" || pswd != "" {
		req.SetBasicAuth(user, pswd)
	}
	w := httptest.NewRecorder()
	h.ServeHTTP(w, req)
	return rResp{Code: w.Code, Body: w.Body.Bytes()}
}

// rStallReader delivers a request body in two parts, the media data after a scheduling point: the rest of an upload
// may arrive after other uploads have been handled completely.
type rStallReader struct {
	data []byte
	cut  int
	pos  int
}

func (r *rStallReader) Read(p []byte) (int, error) {
	if r.pos >= len(r.data) {
		return 0, io.EOF
	}
	end := len(r.data)
	if r.pos < r.cut {
		end = r.cut
	} else if r.pos == r.cut {
		if s := vrt.Cur(); s != nil {
			s.Point("rest-of-body-arrives")
		}
	}
	n := copy(p, r.data[r.pos:end])
	r.pos += n
	return n, nil
}

// rPutStalled is rPut with the body arriving in two parts: everything before the first mdat box, then the rest.
func rPutStalled(h http.Handler, path string, body []byte, user, pswd string) rResp {
	cut := bytes.Index(body, []byte("mdat")) - 4
	if cut <= 0 {
		return rPut(h, path, body, true, user, pswd)
	}
	req := httptest.NewRequest("PUT", path, &rStallReader{data: body, cut: cut})
	req.ContentLength = int64(len(body))
	req.Header.Set("Content-Length", fmt.Sprint(len(body)))
	if user != "" || pswd != "" {
		req.SetBasicAuth(user, pswd)
	}
	w := httptest.NewRecorder()
	h.ServeHTTP(w, req)
	return rResp{Code: w.Code, Body: w.Body.Bytes()}
}

// rPanicSite replays an upload directly on the handler under our own recover.
func rPanicSite(r *Receiver, path string, body []byte) (site, val string) {
	defer func() {
		if p := recover(); p != nil {
			buf := make([]byte, 16384)
			buf = buf[:runtime.Stack(buf, false)]
			site, val = rStackSite(string(buf)), fmt.Sprint(p)
		}
	}()
	req := httptest.NewRequest("PUT", path, bytes.NewReader(body))
	w := httptest.NewRecorder()
	r.SegmentHandlerFunc(w, req)
	return "", ""
}

func rStackSite(stack string) string {
	seen := false
	for _, l := range strings.Split(stack, "\n") {
		if strings.HasPrefix(l, "panic(") {
			seen = true
			continue
		}
		if !seen || strings.HasPrefix(l, "\t") {
			continue
		}
		if strings.Contains(l, "livesim2/") && !strings.Contains(l, "/vshim/") && !strings.Contains(l, "rPanicSite") {
			fn := l
			if k := strings.LastIndex(fn, "("); k > 0 {
				fn = fn[:k]
			}
			if k := strings.LastIndex(fn, "/"); k >= 0 {
				fn = fn[k+1:]
			}
			return fn
		}
	}
	return "unknown"
}
